#!/venv/bin/python
"""Regenerates MANIFEST.json from dst/props.py (claimed checks) + the static text below."""
import json, os, sys
HERE = os.path.dirname(os.path.abspath(__file__))
sys.path.insert(0, HERE)
os.environ["DST_NO_REEXEC"] = "1"
from dst import manifest_data as M

checks = []
for pid in M.CLAIMED:
    d = M.TEXT[pid]
    checks.append({
        "property_id": pid,
        "quick_cmd": f"./check {pid} --tier quick",
        "thorough_cmd": f"./check {pid} --tier thorough",
        "evidence_file": f"/verif/evidence/{pid}.json",
        "replay_cmd_template": f"./check {pid} --replay {{path}}",
        "engine": "dst",
        "level_claimed": {"category": "exploration", "text": d["level"], "design_ref": d["ref"]},
        "level_note": d["note"],
        "technique": d["technique"],
    })
man = {
    "version": 1,
    "setup_cmd": "/venv/bin/python /verif/setup_check.py",
    "hooks": {
        "guard": "ERDOS_SCHEDULING_SIMULATOR_VERIF",
        "enable": "no hooks were added to /repo: every seam is reached from outside (class-level wrappers, module-level `time` patch, logger handlers); checks import /repo's working tree directly (ERDOS_REPO, default /repo)",
        "baseline_off_cmd": "cd /repo && /venv/bin/python -m pytest -ra -q -p no:cacheprovider --timeout=900 --continue-on-collection-errors",
        "source_commits": [],
        "add_only": True,
    },
    "engines": [{"name": "dst", "path": "/verif/dst", "serves_properties": M.CLAIMED,
                 "kind_free_text": "deterministic simulation with fault injection: seeded world generator + the unmodified Simulator run under class-level monitors, a harness ChaosPolicy / solver-choice perturbation / runtime overrun / timeout cuts as faults, reference-model oracles, delta-debugging shrinker and fresh-interpreter replay"}],
    "checks": checks,
    "notes": M.NOTES,
    "not_applicable": M.NOT_APPLICABLE,
}
json.dump(man, open(os.path.join(HERE, "MANIFEST.json"), "w"), indent=1)
print("wrote MANIFEST.json with", len(checks), "checks")
