#!/venv/bin/python
"""MANIFEST.setup_cmd: verify offline that everything the checks need is importable and
byte-compile the harness.  Nothing is fetched."""
import compileall, importlib, os, sys
HERE = os.path.dirname(os.path.abspath(__file__))
ok = compileall.compile_dir(os.path.join(HERE, "dst"), quiet=1)
repo = os.environ.get("ERDOS_REPO", "/repo")
sys.path.insert(0, repo)
for m in ("numpy", "yaml", "absl", "hypothesis", "gurobipy", "docplex", "z3"):
    try:
        importlib.import_module(m)
    except Exception as e:  # solver back-ends are optional for most checks
        print(f"warning: cannot import {m}: {e}")
for m in ("utils", "workload", "workers", "schedulers", "data", "simulator"):
    importlib.import_module(m)
os.makedirs(os.path.join(HERE, "out", "replays"), exist_ok=True)
os.makedirs(os.path.join(HERE, "evidence"), exist_ok=True)
print("setup ok" if ok else "setup: compile errors")
sys.exit(0 if ok else 1)
