#!/bin/bash
# usage: tools/try_copy.sh <patch.diff> <prop> [<prop>...]
# applies the patch to a scratch copy of /repo (outside /repo and /verif, removed afterwards) and runs the
# quick checks against the copy (ERDOS_REPO=<copy>); /repo itself is never touched.
set -u
PATCH=$(readlink -f "$1"); shift
TMP=$(mktemp -d /tmp/erdos-verif-copy-XXXXXX)
trap 'rm -rf "$TMP"' EXIT
rsync -a --exclude .git /repo/ "$TMP/repo/"
( cd "$TMP/repo" && patch -p1 -s -i "$PATCH" ) || { echo "patch does not apply"; exit 2; }
cd /verif
for p in "$@"; do
  ERDOS_REPO="$TMP/repo" timeout 1500 ./check "$p" --tier quick --no-shrink ${RUNS:+--runs $RUNS} ${SEED:+--seed $SEED} 2>&1 | grep -E "^VIOLATION|^\[C|oracle=|HARNESS|UNREPLAY|TOO-MANY" | head -${LINES_:-6} | cut -c1-330
  echo "exit[$p]=${PIPESTATUS[0]}"
done
