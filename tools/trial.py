#!/venv/bin/python
"""tools/trial.py '<stream json>' [n] [base_seed] -- exploratory: run n seeds of one world stream and print every
violation of every property grouped by (property, oracle, known?), with the first seeds.  Not a registered check."""
import collections
import concurrent.futures as cf
import json
import multiprocessing as mp
import os
import sys

HERE = os.path.dirname(os.path.dirname(os.path.abspath(__file__)))
sys.path.insert(0, HERE)
os.chdir(HERE)
from dst import env  # noqa: E402

env.ensure_hashseed()


def one(args):
    seed, stream = args
    from dst import props
    import signal

    signal.signal(signal.SIGALRM, lambda *a: (_ for _ in ()).throw(TimeoutError()))
    signal.alarm(120)
    try:
        r = props.any_run("X", seed, stream)
    except BaseException as e:
        return seed, "harness:" + repr(e)[:200], [], {}
    finally:
        signal.alarm(0)
    pr = dict(r.get("probes", {}))
    for k, v in r.get("faults", {}).items():
        pr["fault:" + k] = v
    return seed, r["outcome"], r["violations"], pr


def main():
    stream = json.loads(sys.argv[1])
    n = int(sys.argv[2]) if len(sys.argv) > 2 else 400
    base = int(sys.argv[3]) if len(sys.argv) > 3 else 0
    env.bootstrap()
    from dst import engine

    known = engine.load_known()
    groups = collections.OrderedDict()
    outcomes = collections.Counter()
    probes = collections.Counter()
    jobs = [(engine.derive_seed(base, "trial", i), stream) for i in range(n)]
    with cf.ProcessPoolExecutor(max_workers=int(os.environ.get("JOBS", "16")), mp_context=mp.get_context("fork")) as ex:
        for seed, outcome, vs, pr in ex.map(one, jobs, chunksize=5):
            outcomes[outcome] += 1
            for k, v in pr.items():
                probes[k] += v
            for v in vs:
                k = engine.match_known(v, known)
                key = (v["property"], v["oracle"], k["id"] if k else None)
                g = groups.setdefault(key, {"n": 0, "seeds": [], "detail": v["detail"][:300], "cause": v.get("cause")})
                g["n"] += 1
                if len(g["seeds"]) < 4:
                    g["seeds"].append(seed)
    print("outcomes", dict(outcomes))
    if os.environ.get("PROBES"):
        print("probes", dict(probes))
    for (p, o, k), g in groups.items():
        print(f"{p} {o} known={k} n={g['n']} seeds={g['seeds']} cause={g['cause']}\n     {g['detail']}")


if __name__ == "__main__":
    main()
