#!/bin/bash
# usage: tools/thorough.sh [jobs] [props...] -- run the thorough tier of every (or the given) check, one line each
JOBS=${1:-8}; shift
PROPS=${@:-$(python3 -c "import json;print(' '.join(c['property_id'] for c in json.load(open('/verif/MANIFEST.json'))['checks']))")}
cd /verif
for p in $PROPS; do
  out=$(timeout 14400 ./check $p --tier thorough --jobs $JOBS 2>&1); rc=$?
  echo "$p rc=$rc $(echo "$out" | grep -E '^\[C' | tail -1 | cut -c1-260)"
  echo "$out" | grep -E "^KNOWN-FINDING" | cut -c1-120 | sort | uniq -c
  if [ $rc -ne 0 ]; then echo "$out" | grep -E "VIOLATION|oracle=|HARNESS|UNREPLAY|TOO-MANY|Traceback" | head -12; fi
done
