#!/bin/bash
# usage: tools/try_seeded.sh <patch.diff> <prop> [<prop>...]   (applies to /repo, runs quick checks, reverts)
set -u
PATCH=$1; shift
cd /repo || exit 2
if ! git diff --quiet; then echo "/repo has uncommitted changes"; exit 2; fi
git apply "$PATCH" || { echo "patch does not apply"; exit 2; }
trap 'git -C /repo checkout -- . ' EXIT
cd /verif
for p in "$@"; do
  timeout 1200 ./check "$p" --tier quick ${RUNS:+--runs $RUNS} 2>&1 | grep -E "^VIOLATION|^\[C|oracle=|HARNESS|UNREPLAY|TOO-MANY" | head -8
  echo "exit[$p]=${PIPESTATUS[0]}"
done
