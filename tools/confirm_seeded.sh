#!/bin/bash
# usage: tools/confirm_seeded.sh <worktree-id> -- confirm a sub-agent's seeded change in its scratch worktree, then archive it
set -u
ID=$1
WT=/tmp/wt/$ID
cd $WT || exit 2
git diff -- . ':(exclude)SEEDED' > /tmp/wt/$ID.patch
cmp -s /tmp/wt/$ID.patch SEEDED/patch.diff || echo "note: patch.diff differs from current diff (using current diff)"
timeout 300 /venv/bin/python SEEDED/demo.py > /tmp/wt/$ID.with.out 2>&1; W=$?
T=$(timeout 1200 /venv/bin/python -m pytest -q -p no:cacheprovider --timeout=900 2>&1 | tail -1)
git apply -R /tmp/wt/$ID.patch || { echo "cannot reverse"; exit 2; }
timeout 300 /venv/bin/python SEEDED/demo.py > /tmp/wt/$ID.without.out 2>&1; WO=$?
git apply /tmp/wt/$ID.patch
echo "$ID demo_with_patch_exit=$W demo_without_patch_exit=$WO tests: $T"
if [ "$W" = "1" ] && [ "$WO" = "0" ] && echo "$T" | grep -q "209 passed" && ! echo "$T" | grep -q failed; then
  D=/verif/seeded/$ID; mkdir -p $D
  cp /tmp/wt/$ID.patch $D/patch.diff; cp SEEDED/demo.py $D/demo.py; cp SEEDED/meta.json $D/meta.agent.json 2>/dev/null
  tail -5 /tmp/wt/$ID.with.out > $D/demo_with_patch.txt; tail -3 /tmp/wt/$ID.without.out > $D/demo_without_patch.txt
  echo CONFIRMED
else
  echo NOT-CONFIRMED; tail -5 /tmp/wt/$ID.with.out; tail -3 /tmp/wt/$ID.without.out
fi
