#!/bin/bash
# usage: tools/sweep.sh "<seeds>" [props...]  -- run quick checks for several VERIF_SEED values, print one line each
SEEDS=$1; shift
PROPS=${@:-$(python3 -c "import json;print(' '.join(c['property_id'] for c in json.load(open('/verif/MANIFEST.json'))['checks']))")}
cd /verif
for s in $SEEDS; do for p in $PROPS; do
  out=$(VERIF_SEED=$s timeout 1800 ./check $p --tier quick 2>&1); rc=$?
  echo "seed=$s $p rc=$rc $(echo "$out" | grep -E '^\[C' | tail -1 | cut -c1-200)"
  if [ $rc -ne 0 ]; then echo "$out" | grep -E "VIOLATION|oracle=|HARNESS|UNREPLAY|TOO-MANY|Traceback|Error" | head -8; fi
done; done
