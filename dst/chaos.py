"""ChaosPolicy: a harness-owned BaseScheduler that emits *any decision legal under the
Placement contract the simulator documents* (fault kind F1).  Decisions are a
counter-based PRF of (run seed, invocation #, task unique name) so that deleting an
unrelated graph while shrinking does not reshuffle the others."""
import random

from .monitor import _us, demand_of


def make_chaos(world, b):
    from schedulers import BaseScheduler
    from utils import EventTime
    from workload import BranchPredictionPolicy, Placement, Placements

    pol = world["policy"]
    US = lambda x: EventTime(int(x), EventTime.Unit.US)  # noqa
    bp = {"all": BranchPredictionPolicy.ALL, "worst": BranchPredictionPolicy.WORST_CASE,
          "best": BranchPredictionPolicy.BEST_CASE, "max": BranchPredictionPolicy.MAXIMUM,
          "random": BranchPredictionPolicy.RANDOM}[pol.get("branch_policy", "all")]

    class ChaosPolicy(BaseScheduler):
        def __init__(self):
            super().__init__(preemptive=False, runtime=US(pol.get("runtime", 0)),
                             lookahead=US(pol.get("lookahead", 0)), enforce_deadlines=False,
                             policy=bp, retract_schedules=bool(pol.get("retract")),
                             release_taskgraphs=bool(pol.get("release_taskgraphs")), _flags=b.flags)
            self.inv = 0
            self.stats = {}
            self.batches = {}  # (strategy signature, worker id) -> [BatchStrategy, {id(task): task}]

        def _fits_empty(self, worker, st):
            tot = {}
            for res, q in worker.resources.resources:
                tot[res.name] = tot.get(res.name, 0) + q
            return all(tot.get(n, 0) >= q for n, _, q in demand_of(st))

        def schedule(self, sim_time, workload, worker_pools):
            self.inv += 1
            now = _us(sim_time)
            rt = _us(self.runtime)
            offer = workload.get_schedulable_tasks(
                sim_time, self.lookahead, self.preemptive, self.retract_schedules, worker_pools,
                self.policy, self.branch_prediction_accuracy, self.release_taskgraphs)
            pools = list(worker_pools.worker_pools)
            out = []
            seen = set()
            for ent in self.batches.values():
                ent[2] = 0
            for t in offer:
                if id(t) in seen:
                    continue
                seen.add(id(t))
                r = random.Random(f"{world['seed']}:chaos:{self.inv}:{t.unique_name}")
                st = t.state.name
                if st not in ("VIRTUAL", "RELEASED", "SCHEDULED"):
                    continue
                if st == "SCHEDULED":
                    cp = t.current_placement
                    if cp is None or _us(cp.placement_time) <= now + rt:
                        continue  # may already have started when the decision is applied
                    u = r.random()
                    if u < 0.5:
                        continue  # keep the earlier decision
                # children of a conditional that has not completed are only placed or left
                # alone: cancelling/dropping one zeroes its probability and the conditional's
                # probability check then refuses the graph (a precondition, not a fault)
                cond_child = any(p_.conditional and not p_.is_complete()
                                 for p_ in workload.get_task_graph(t.task_graph).get_parents(t))
                u = r.random()
                if u < pol.get("p_omit", 0):
                    self._n("omit")
                    continue
                u = r.random()
                if u < pol.get("p_cancel", 0) and not cond_child:
                    out.append(Placement.create_task_cancellation(task=t))
                    self._n("cancel")
                    continue
                u = r.random()
                if u < pol.get("p_skip", 0) and not (cond_child and world["flags"]["drop_skipped_tasks"]):
                    out.append(Placement.create_task_placement(task=t))
                    self._n("skip" if st != "SCHEDULED" else "retract")
                    continue
                # place: strategy of the task that fits some *empty* worker of some pool
                opts = []
                for s in t.available_execution_strategies:
                    for p in pools:
                        for w in p.workers:
                            if self._fits_empty(w, s):
                                opts.append((s, p, w))
                if not opts:
                    out.append(Placement.create_task_placement(task=t))
                    self._n("skip_nofit")
                    continue
                now_ok = [o for o in opts if o[2].can_accomodate_strategy(o[0])]
                if now_ok and r.random() >= pol.get("p_full", 0):
                    s, p, w = r.choice(now_ok)
                else:
                    s, p, w = r.choice(opts)
                    if (s, p, w) not in now_ok:
                        self._n("place_on_full")
                delta = 0
                if r.random() < pol.get("p_future", 0):
                    delta = r.choice(pol.get("future_deltas") or [1, 1, 2, 3, 5])
                    self._n("place_future")
                wid = w.id if pol.get("ids") else None
                if r.random() < pol.get("p_batch", 0):
                    # batched placement: members of one BatchStrategy share one allocation on one
                    # worker; the same BatchStrategy object is re-used for late members and after the
                    # batch has drained (never beyond its batch_size: that is refused by contract)
                    s = self._batch_for(r, s, w, t)
                    wid = w.id
                    self._n("place_batched")
                if st == "SCHEDULED":
                    self._n("replace")
                out.append(Placement.create_task_placement(
                    task=t, placement_time=US(now + rt + delta), worker_pool_id=p.id, worker_id=wid,
                    execution_strategy=s))
                self._n("place")
            self._profile_decisions(sim_time, now, rt, pools, out)
            return Placements(runtime=self.runtime, true_runtime=US(0), placements=out)

        def _profile_decisions(self, sim_time, now, rt, pools, out):
            """load / re-load / evict model profiles on workers (next to running tasks): a load is only
            requested where the loading strategy fits right now and where this invocation placed no task"""
            if not pol.get("p_load"):
                return
            r = random.Random(f"{world['seed']}:chaos-load:{self.inv}")
            if r.random() >= pol["p_load"]:
                return
            used_pools = {p_.worker_pool_id for p_ in out
                          if p_.placement_type.name == "PLACE_TASK" and p_.is_placed()}
            profs = [p_ for p_ in b.profiles.values() if len(list(p_.loading_strategies)) > 0]
            if not profs:
                return
            prof = r.choice(sorted(profs, key=lambda p_: p_.name))
            pool = r.choice(pools)
            w = r.choice(list(pool.workers))
            avail = w.is_available(prof)
            if _us(avail) == 0 and r.random() < 0.5:
                out.append(Placement.create_evict_profile_placement(
                    work_profile=prof, placement_time=US(now + rt), worker_pool_id=pool.id, worker_id=w.id))
                self._n("evict_profile")
                return
            if pool.id in used_pools:
                return
            ls = r.choice(list(prof.loading_strategies))
            if not w.can_accomodate_strategy(ls):
                return
            if _us(avail) is not None and _us(avail) > 0:
                return  # still loading
            if _us(avail) == 0:
                self._n("reload_profile")
            out.append(Placement.create_load_profile_placement(
                work_profile=prof, placement_time=US(now + rt), worker_pool_id=pool.id, loading_strategy=ls,
                worker_id=w.id))
            self._n("load_profile")

        def _batch_for(self, r, s, w, t):
            from workload import BatchStrategy

            key = (str(s.resources), _us(s.runtime), s.batch_size, w.id)
            ent = self.batches.get(key)
            if ent is not None:
                live = [m for m in ent[1].values()
                        if m.state.name not in ("COMPLETED", "CANCELLED")
                        and (m.current_placement is None or m.current_placement.execution_strategy is ent[0]
                             or m.state.name in ("VIRTUAL", "RELEASED"))]
                if len(live) + ent[2] >= s.batch_size or r.random() < 0.15:
                    ent = None
                elif not live:
                    self._n("batch_reused_after_drain")
                else:
                    self._n("batch_joined")
            if ent is None:
                ent = self.batches[key] = [BatchStrategy(s), {}, 0]
                self._n("batch_new")
            if id(t) not in ent[1]:
                ent[2] += 1  # decisions of this invocation are not visible in task state yet
            ent[1][id(t)] = t
            return ent[0]

        def _n(self, k):
            self.stats[k] = self.stats.get(k, 0) + 1

    return ChaosPolicy()


def make_wc(world, b):
    """WorkConserving policy with latency: a harness-owned first-fit policy (by release time or deadline)
    that, unlike the bundled greedy policies, takes `runtime` > 0 simulated microseconds to decide and
    therefore places at sim_time + runtime (fault kind F2 for C05's work-conserving clause).  It never
    skips a task that fits the scratch copy of the cluster, never cancels, never plans further ahead."""
    from copy import copy

    from schedulers import BaseScheduler
    from utils import EventTime
    from workload import Placement, Placements

    pol = world["policy"]
    US = lambda x: EventTime(int(x), EventTime.Unit.US)  # noqa

    class WCPolicy(BaseScheduler):
        def __init__(self):
            super().__init__(preemptive=False, runtime=US(pol.get("runtime", 1)), lookahead=US(0),
                             enforce_deadlines=False, retract_schedules=False, release_taskgraphs=False,
                             _flags=b.flags)
            self.stats = {}

        def schedule(self, sim_time, workload, worker_pools):
            offer = workload.get_schedulable_tasks(sim_time, self.lookahead, False, False, worker_pools,
                                                   self.policy, self.branch_prediction_accuracy, False)
            pools = copy(worker_pools)
            if pol.get("order") == "deadline":
                offer = sorted(offer, key=lambda t: (_us(t.deadline), t.unique_name))
            else:
                offer = sorted(offer, key=lambda t: (_us(t.release_time), t.unique_name))
            out = []
            when = US(_us(sim_time) + _us(self.runtime))
            for t in offer:
                if t.state.name not in ("VIRTUAL", "RELEASED"):
                    continue
                done = False
                for s in t.available_execution_strategies:
                    for p in pools.worker_pools:
                        if p.can_accomodate_strategy(s):
                            p.place_task(t, execution_strategy=s)
                            out.append(Placement.create_task_placement(
                                task=t, placement_time=when, worker_pool_id=p.id, execution_strategy=s))
                            self.stats["wc_place"] = self.stats.get("wc_place", 0) + 1
                            done = True
                            break
                    if done:
                        break
                if not done:
                    out.append(Placement.create_task_placement(task=t))
                    self.stats["wc_wait"] = self.stats.get("wc_wait", 0) + 1
            return Placements(runtime=self.runtime, true_runtime=US(0), placements=out)

    return WCPolicy()
