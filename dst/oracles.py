"""Per-property monitors that need more than the core shadow state, and the post-run
oracles over the recorded history and CSV trace (C05, C06, C07, C08, C18, C19 closed loop).
"""
import csv
import io

from . import monitor
from .monitor import _us

_INSTALLED = False


# =============================================================================
# frontier wrappers (C18) and policy wrapper (C08 counts, C10-C15 via policymon)
# =============================================================================
def install():
    global _INSTALLED
    if _INSTALLED:
        return
    from workload import TaskGraph, Workload

    def mk_gst(orig):
        def get_schedulable_tasks(self, *a, **kw):
            ctx = monitor.CURRENT
            r = orig(self, *a, **kw)
            if ctx is not None and self is ctx.built.workload and not ctx.in_probe:
                monitor._safe(ctx, on_frontier, self, a, kw, r)
            return r
        return get_schedulable_tasks

    def mk_ntc(orig):
        def notify_task_completion(self, task, finish_time):
            ctx = monitor.CURRENT
            if ctx is None:
                return orig(self, task, finish_time)
            pre = monitor._safe(ctx, pre_completion, self, task)
            try:
                r = orig(self, task, finish_time)
            except Exception as e:  # noqa
                monitor._safe(ctx, completion_raised, self, task, pre, e)
                raise
            monitor._safe(ctx, post_completion, self, task, pre, r)
            return r
        return notify_task_completion

    monitor._wrap(Workload, "get_schedulable_tasks", mk_gst)
    monitor._wrap(TaskGraph, "notify_task_completion", mk_ntc)
    _INSTALLED = True


def attach(ctx):
    monitor.install()
    install()
    ctx.in_probe = False
    ctx.frontier_calls = 0
    ctx.offers = []  # per SCHEDULER_START: (time, set(id(task)) offered)
    ctx.released_by_completion = {}
    ctx.inflight_max = {}
    ctx.cond_choices = {}
    ctx.sched_rows = []
    ctx.policy_cancelled = {}
    ctx.submitted_choice = {}
    ctx.last_offer = None
    ctx.env_limit = None
    ctx.solver_chaos_active = False
    ctx.extra_boundary.append(closed_loop_boundary)
    wrap_policy(ctx)


def wrap_policy(ctx):
    """intercept the policy's schedule() (instance attribute, the class is untouched)"""
    from . import policymon

    sched = ctx.built.scheduler
    orig = sched.schedule

    def schedule(sim_time, workload, worker_pools):
        if monitor.CURRENT is not ctx:
            return orig(sim_time, workload, worker_pools)
        return policymon.observed_schedule(ctx, sched, orig, sim_time, workload, worker_pools)

    sched.schedule = schedule


# =============================================================================
# C18
# =============================================================================
def _arg(a, kw, idx, name, default):
    if name in kw:
        return kw[name]
    if len(a) > idx:
        return a[idx]
    return default


def on_frontier(ctx, workload, a, kw, result):
    from utils import EventTime

    ctx.frontier_calls += 1
    time = _arg(a, kw, 0, "time", None)
    lookahead = _arg(a, kw, 1, "lookahead", EventTime.zero())
    preemption = _arg(a, kw, 2, "preemption", False)
    retract = _arg(a, kw, 3, "retract_schedules", False)
    rel_tg = _arg(a, kw, 7, "release_taskgraphs", False)
    now = _us(time)
    la = _us(lookahead)
    got = {id(t): t for t in result}
    if len(got) != len(result):
        ctx.violate("C18", "duplicate_in_offer", f"a task is offered twice at t={now}", {})
    plan_ahead = la > 0 or rel_tg or retract
    for t in ctx.all_live_tasks():
        s = ctx.shadow(t)
        st = t.state.name
        if st == "RELEASED":
            rt = _us(t.release_time)
            if rt <= now + la and id(t) not in got:
                ctx.violate("C18", "ready_task_not_offered",
                            f"{s.uname} RELEASED at {rt} is missing from the offer at t={now} "
                            f"(lookahead {la})", {"lookahead": la})
        elif st == "VIRTUAL" and s.released_obs > 0 and id(t) not in got:
            # released earlier (while scheduled ahead), fell back to VIRTUAL on a retraction
            rt = _us(t.release_time)
            if rt is not None and 0 <= rt <= now + la:
                ctx.violate("C18", "ready_task_not_offered",
                            f"{s.uname} released at {rt} (now VIRTUAL after a retraction) is missing from "
                            f"the offer at t={now}", {"lookahead": la, "state": "VIRTUAL"})
    for t in result:
        s = ctx.shadow(t)
        st = t.state.name
        if st in ("COMPLETED", "CANCELLED"):
            ctx.violate("C18", "dead_task_offered", f"{s.uname} in state {st} offered at t={now}",
                        {"state": st})
        elif st == "SCHEDULED" and not (retract or preemption):
            ctx.violate("C18", "scheduled_task_offered", f"{s.uname} SCHEDULED offered at t={now} "
                        f"without retraction/preemption", {})
        elif st == "RUNNING" and not preemption:
            ctx.violate("C18", "running_task_offered", f"{s.uname} RUNNING offered at t={now} without "
                        f"preemption", {})
        if not plan_ahead and not preemption:
            par = ctx.parent_shadows(s)
            node = ctx.nodes.get(s.base, {}).get(s.node, {})
            done = [ps is not None and ps.state == "COMPLETED" for _, ps in par]
            ok = (any(done) if node.get("terminal") else all(done)) if par else True
            if not ok:
                inc = [ps for _, ps in par if ps is not None and ps.state != "COMPLETED"]
                cause = {
                    "parent_states": sorted({ps.state for ps in inc}),
                    "zero_length_parent": any(_us(ps.task.remaining_time) == 0 for ps in inc),
                    "deferred_parent": any(ps.state == "SCHEDULED" and (ps.deferred or (
                        ps.chosen_time is not None and ps.chosen_time < now)) for ps in inc),
                }
                ctx.violate("C18", "offered_before_predecessors",
                            f"{s.uname} offered at t={now} to a policy that does not plan ahead while "
                            f"its predecessors are not complete: "
                            f"{[(ps.uname, ps.state, _us(ps.task.remaining_time)) for ps in inc]}", cause)
        if st == "VIRTUAL":
            ctx.probe("virtual_task_offered")
        if st == "SCHEDULED":
            ctx.probe("scheduled_task_offered")
    ctx.last_offer = (now, got, dict(lookahead=la, retract=retract, rel_tg=rel_tg,
                                     preemption=preemption))
    monotonicity_probes(ctx, workload, a, kw, got, now, la, rel_tg)


def monotonicity_probes(ctx, workload, a, kw, got, now, la, rel_tg):
    """increasing the lookahead or releasing whole task graphs only adds tasks to the offer (extra
    calls at the same instant on the same state, RNG state restored; branch policies that draw
    random numbers are skipped)."""
    import random

    from utils import EventTime
    from workload import BranchPredictionPolicy

    policy = _arg(a, kw, 5, "policy", BranchPredictionPolicy.ALL)
    if policy == BranchPredictionPolicy.RANDOM:
        return
    if ctx.frontier_calls % 3 != 0:  # one call in three is probed (cost)
        return
    time = _arg(a, kw, 0, "time", None)
    preemption = _arg(a, kw, 2, "preemption", False)
    retract = _arg(a, kw, 3, "retract_schedules", False)
    wps = _arg(a, kw, 4, "worker_pools", None)
    acc = _arg(a, kw, 6, "branch_prediction_accuracy", 0.5)
    st = random.getstate()
    ctx.in_probe = True
    try:
        def call(la_, rel_):
            r = workload.get_schedulable_tasks(time, EventTime(la_, EventTime.Unit.US), preemption, retract,
                                               wps, policy, acc, rel_)
            return {id(t): t for t in r}

        same = call(la, rel_tg)
        if set(same) != set(got):
            ctx.violate("C18", "offer_not_a_function_of_state",
                        f"two identical frontier queries at t={now} returned different offers", {})
            return
        ctx.probe("c18_monotonicity_probed")
        for d in (1, 4, 15):
            bigger = call(la + d, rel_tg)
            lost = [t.unique_name for i, t in got.items() if i not in bigger]
            if lost:
                ctx.violate("C18", "lookahead_not_monotone",
                            f"at t={now} raising the lookahead from {la} to {la + d} removes {lost} from the offer",
                            {"release_taskgraphs": bool(rel_tg), "retract": bool(retract)})
                return
            if len(bigger) > len(got):
                ctx.probe("c18_lookahead_added_tasks")
        if not rel_tg:
            whole = call(la, True)
            lost = [t.unique_name for i, t in got.items() if i not in whole]
            if lost:
                ctx.violate("C18", "release_taskgraphs_not_monotone",
                            f"at t={now} release_taskgraphs=True removes {lost} from the offer (lookahead {la})",
                            {"retract": bool(retract)})
            elif len(whole) > len(got):
                ctx.probe("c18_release_taskgraphs_added_tasks")
    finally:
        ctx.in_probe = False
        random.setstate(st)


def pre_completion(ctx, tg, task):
    """snapshot what the reference says must be released by this completion"""
    s = ctx.shadow(task)
    node = ctx.nodes.get(s.base, {}).get(s.node, {})
    kids = ctx.children.get(s.base, {}).get(s.node, [])
    expect = []
    if node.get("conditional"):
        if ctx.world["flags"].get("resolve_conditionals_at_submission"):
            # the branch resolved at submission: the one child whose task carries probability 1 (the others 0)
            probs = {c.name: c.probability for c in tg.get_children(task)}
            ones = [k for k, p_ in probs.items() if abs(p_ - 1.0) < 1e-9]
            if len(ones) == 1 and all(p_ < 1e-9 for k, p_ in probs.items() if k != ones[0]):
                ctx.submitted_choice[(s.graph, s.node)] = ones[0]
        return {"cond": True, "kids": kids, "s": s}
    for k in kids:
        ks = ctx.by_key.get((s.graph, k))
        if ks is None:
            continue
        knode = ctx.nodes[s.base][k]
        if ks.state == "CANCELLED":
            continue
        if knode.get("terminal"):
            expect.append(k)
        else:
            pars = ctx.parents[s.base][k]
            if all((ctx.by_key.get((s.graph, p)) is not None and
                    ctx.by_key[(s.graph, p)].state == "COMPLETED") for p in pars):
                expect.append(k)
    return {"cond": False, "expect": expect, "s": s}


def completion_raised(ctx, tg, task, pre, exc):
    """the completion of a conditional raised instead of choosing a branch: no child is released.  Not C07's
    business when a child had been cancelled earlier (by a policy, or by drop_skipped_tasks): the weights can
    then no longer sum to one, which is a consequence of that cancellation (KF-C05-cancelled-conditional-child)"""
    if pre is None or not pre.get("cond"):
        return
    s = pre["s"]
    live = [k for k in pre["kids"] if ctx.by_key.get((s.graph, k)) is not None]
    if any(tg_task.state.name == "CANCELLED" for tg_task in tg.get_children(task)) or \
            any(ctx.by_key[(s.graph, k)].state == "CANCELLED" for k in live):
        ctx.probe("conditional_completion_raised_after_cancel")
        return
    ctx.violate("C07", "conditional_completion_raised",
                f"completion of conditional {s.uname} raised {type(exc).__name__}: {str(exc)[:160]}; no branch "
                f"was released", {"exc": type(exc).__name__,
                                  "resolve_at_submission": bool(ctx.world["flags"].get(
                                      "resolve_conditionals_at_submission"))})


def post_completion(ctx, tg, task, pre, result):
    if pre is None:
        return
    released, cancelled = result
    s = pre["s"]
    rel_names = [t.name for t in released]
    if pre["cond"]:
        kids = pre["kids"]
        kid_nodes = [ctx.nodes[s.base][k] for k in kids]
        # shadow probabilities: spec, unless resolved at submission (then the tasks carry 0/1)
        if len(released) > 1:
            ctx.violate("C07", "several_branches_released",
                        f"conditional {s.uname} released {rel_names}", {})
        if len(released) == 0:
            ctx.probe("conditional_released_nothing")
        for t in released:
            if t.name not in kids:
                ctx.violate("C07", "released_non_child", f"conditional {s.uname} released {t.name}", {})
        # a chosen child that still waits for an ordinary (side-input) parent is released later, by that
        # parent's completion: it is the one child that is neither released nor cancelled now
        gone = set(rel_names) | {t.name for t in cancelled}
        deferred = []
        for k in kids:
            ks = ctx.by_key.get((s.graph, k))
            if k in gone or ks is None or ks.state in ("CANCELLED", "COMPLETED"):
                continue
            others = [p for p in ctx.parents[s.base][k] if p != s.node]
            if others and not ctx.nodes[s.base][k].get("terminal") and any(
                    ctx.by_key.get((s.graph, p)) is None or ctx.by_key[(s.graph, p)].state != "COMPLETED"
                    for p in others):
                deferred.append(k)
        ctx.cond_choices[(s.graph, s.node)] = {"released": rel_names,
                                               "cancelled": [t.name for t in cancelled],
                                               "deferred": deferred}
        ctx.probe("conditional_resolved")
        for t in released:
            ks = ctx.shadow(t)
            ks_rel = ctx.released_by_completion.setdefault((s.graph, t.name), 0)
            ctx.released_by_completion[(s.graph, t.name)] = ks_rel + 1
        return
    if sorted(rel_names) != sorted(pre["expect"]):
        ctx.violate("C18", "wrong_children_released",
                    f"completion of {s.uname} released {sorted(rel_names)}, the children whose every "
                    f"parent is complete (join: first completed parent) are {sorted(pre['expect'])}",
                    {"extra": bool(set(rel_names) - set(pre["expect"])),
                     "missing": bool(set(pre["expect"]) - set(rel_names))})
    for t in released:
        key = (s.graph, t.name)
        ctx.released_by_completion[key] = ctx.released_by_completion.get(key, 0) + 1
        if ctx.nodes[s.base][t.name].get("terminal"):
            ctx.probe("join_released_by_first_parent")
            if ctx.released_by_completion[key] > 1:
                ctx.violate("C18", "join_released_twice", f"{t.name}@{s.graph} released by more than one "
                            f"parent completion", {})


# =============================================================================
# C19 (closed loop, run-dependent clause)
# =============================================================================
def closed_loop_boundary(ctx):
    specs = getattr(ctx, "_cl_specs", None)
    if specs is None:
        specs = {g["name"]: g["release"] for g in ctx.world["graphs"]
                 if g["release"]["type"] == "closed_loop"}
        ctx._cl_specs = specs
    if not specs:
        return
    counts = {}
    totals = {}
    for name, tg in list(ctx.built.workload.task_graphs.items()):
        base = name.split("@")[0]
        if base not in specs:
            continue
        totals[base] = totals.get(base, 0) + 1
        released = False
        done = True
        sinks_dead = False
        for t in tg.get_nodes():
            s = ctx.shadows.get(id(t))
            if s is None:
                continue
            if s.released_obs > 0 or s.state not in ("VIRTUAL",):
                released = True
        sinks = [n["name"] for n in ctx.world_graph(base)["nodes"] if not n["children"]]
        sstates = [ctx.by_key[(name, k)].state for k in sinks if (name, k) in ctx.by_key]
        finished = bool(sstates) and all(x == "COMPLETED" for x in sstates)
        cancelled = any(x == "CANCELLED" for x in sstates)
        if released and not finished and not cancelled:
            counts[base] = counts.get(base, 0) + 1
    for base, rel in specs.items():
        c = counts.get(base, 0)
        if c > ctx.inflight_max.get(base, 0):
            ctx.inflight_max[base] = c
        if c > rel["concurrency"]:
            ctx.violate("C19", "closed_loop_concurrency_exceeded",
                        f"{base}: {c} task graphs in flight at t={ctx.now}, declared concurrency "
                        f"{rel['concurrency']}", {})
        if totals.get(base, 0) > rel["invocations"]:
            ctx.violate("C19", "closed_loop_too_many_invocations",
                        f"{base}: {totals.get(base, 0)} task graphs created, declared {rel['invocations']}",
                        {})
        if totals.get(base, 0) > min(rel["concurrency"], rel["invocations"]):
            ctx.probe("closed_loop_rerelease")


def _closed_loop_deadlines(ctx, g):
    """every invocation of a closed-loop job graph -- also the ones created during the run, when an earlier
    one finished or was cancelled -- has deadline = release + critical-path/SLO time stretched within the
    declared variance and bounds (same reference as the loader check, dst/cli19.py)"""
    from . import cli19

    w = ctx.world
    fl = w["flags"]
    if fl.get("decompose_deadlines") or fl.get("use_branch_predicated_deadlines") or w.get("mixed_units"):
        return
    try:
        bases, dv, lo_b, hi_b, zero_w = cli19.deadline_ranges(w, g, {}, True)
    except Exception:
        return
    if zero_w:
        return  # KF-C19-zero-weight-critical-path territory: decided by the loader check, not here
    initial = min(g["release"]["concurrency"], g["release"]["invocations"])
    for name, tg in sorted(ctx.built.workload.task_graphs.items()):
        if name.split("@")[0] != g["name"]:
            continue
        try:
            idx = int(name.split("@")[1])
        except Exception:
            continue
        rt = _us(tg.release_time)
        dls = {_us(t.deadline) for t in tg.get_nodes()}
        ctx.probe("c19_run_deadline_checked")
        if not cli19.deadline_in_range(rt, dls, bases, dv, lo_b, hi_b):
            ctx.violate("C19", "closed_loop_deadline_out_of_range",
                        f"{name}: release {rt}, deadlines {sorted(dls)}, critical-path/SLO base {bases}, variance "
                        f"{dv}, bounds {[lo_b, hi_b]}", {"created_during_run": idx >= initial})
            return


def post_c19_closed_loop(ctx):
    """a run that reached its natural end (before the loop timeout) has released all N invocations of every
    closed-loop job graph: each invocation that finishes *or is cancelled* hands its slot to the next one"""
    for g in ctx.world["graphs"]:
        if g["release"]["type"] == "closed_loop":
            _closed_loop_deadlines(ctx, g)
    end_t = ctx.end_time
    if end_t is None or end_t >= ctx.world["sim"]["loop_timeout"]:
        return
    for g in ctx.world["graphs"]:
        rel = g["release"]
        if rel["type"] != "closed_loop":
            continue
        total = sum(1 for name in ctx.built.workload.task_graphs if name.split("@")[0] == g["name"])
        ctx.probe("c19_closed_loop_total_checked")
        if total < rel["invocations"]:
            ctx.violate("C19", "closed_loop_too_few_invocations",
                        f"{g['name']}: the run ended at {end_t} before the timeout with {total} task graphs "
                        f"released, declared {rel['invocations']} (concurrency {rel['concurrency']})", {})


def _world_graph(self, base):
    m = getattr(self, "_wg", None)
    if m is None:
        m = {g["name"]: g for g in self.world["graphs"]}
        self._wg = m
    return m[base]


monitor.RunCtx.world_graph = _world_graph


# =============================================================================
# post-run
# =============================================================================
def parse_rows(rows):
    out = []
    for r in rows:
        out.append(next(csv.reader(io.StringIO(r))))
    return out


def post_run(ctx, rows, res):
    parsed = parse_rows(rows)
    post_c05(ctx, parsed, res)
    if res["outcome"] == "ended":
        post_c06(ctx, parsed, res)
        post_c07(ctx, parsed, res)
        from . import tracecheck

        tracecheck.post_c08(ctx, parsed, rows, res)
        post_c02_trace(ctx, parsed)
        post_c18(ctx, parsed)
        post_c12(ctx)
        post_c19_closed_loop(ctx)
    elif res["outcome"] == "crash":
        post_c07(ctx, parsed, res, safety_only=True)


# ----------------------------------------------------------------------- C05
BUNDLED = ("EDF", "FIFO", "LSF", "ILP", "TetriSchedGurobi", "TetriSchedCPLEX", "Clockwork")
# the harness-owned work-conserving policy with a decision latency ("WC") is *measured* against the same
# clause (probes c05_wc_*), never asserted: the property names EDF, FIFO and LSF
WORK_CONSERVING = ("EDF", "FIFO", "LSF", "WC")


def feasible_task(ctx, s):
    """does some strategy of the task fit some worker of the empty cluster?"""
    from . import world as W

    g = ctx.world_graph(s.base)
    node = ctx.nodes[s.base][s.node]
    prof = ctx.world["profiles"][node["profile"]]
    return any(W.feasible_somewhere(st["req"], ctx.world["cluster"]) for st in prof["strategies"])


def post_c05(ctx, parsed, res):
    world = ctx.world
    pol = world["policy"]
    bundled = pol["name"] in BUNDLED or pol["name"] == "WC"
    measure_only = pol["name"] == "WC"

    def report(oracle, detail, cause):
        if measure_only:
            ctx.probe("c05_wc_" + oracle)
        else:
            ctx.violate("C05", oracle, detail, cause)
    timeout = world["sim"]["loop_timeout"]
    if res["outcome"] == "crash":
        if bundled:
            kind = "other"
            if "sum of the probability of children" in res["error"]:
                kind = "conditional_child_probability_sum"
            ctx.violate("C05", "crash", f"simulate() raised {res['error']} at {res.get('crash_site')}",
                        {"site": res.get("crash_site"), "exc": res["error"].split(":")[0], "kind": kind})
        return
    if res["outcome"] != "ended":
        return
    ends = [r for r in parsed if len(r) > 1 and r[1] == "SIMULATOR_END"]
    if len(ends) != 1:
        ctx.violate("C05", "no_end_row", f"{len(ends)} SIMULATOR_END rows", {})
        return
    end_t = int(ends[0][0])
    if not bundled:
        return
    # an invocation that began before the timeout may carry the end past it by its own runtime
    slack = max(pol.get("runtime", 0), 0)
    if end_t > timeout + slack:
        ctx.violate("C05", "ended_after_timeout", f"SIMULATOR_END at {end_t} > loop_timeout {timeout}", {})
    if ctx.now > timeout + slack:
        ctx.violate("C05", "ran_past_timeout", f"events handled up to t={ctx.now} > loop_timeout {timeout}",
                    {"run_at_worker_free": world["flags"]["scheduler_run_at_worker_free"]})
    # "never ends while released, runnable work remains" (unless at the timeout)
    if end_t < timeout:
        for s in ctx.shadows.values():
            if s.state == "RELEASED" and feasible_task(ctx, s):
                report("ended_with_runnable_work",
                            f"SIMULATOR_END at {end_t} < timeout {timeout} while {s.uname} is RELEASED "
                            f"and fits the empty cluster", {"policy": pol["name"]})
                break
            if s.state in ("SCHEDULED", "RUNNING"):
                report("ended_with_work_in_flight",
                            f"SIMULATOR_END at {end_t} < timeout {timeout} while {s.uname} is {s.state}",
                            {"policy": pol["name"], "state": s.state})
                break
    # work-conserving policies finish feasible work before the timeout
    if pol["name"] in WORK_CONSERVING and not pol.get("enforce_deadlines") and \
            not world["flags"]["drop_skipped_tasks"] and not world["faults"].get("cut"):
        if any(g["release"]["type"] == "periodic" for g in world["graphs"]):
            return
        tasks = list(ctx.shadows.values())
        if not tasks or not all(feasible_task(ctx, s) for s in tasks):
            ctx.probe("c05_infeasible_world")
            return
        # generous-timeout precondition, checked rather than assumed
        v = world["flags"]["runtime_variance"]
        freq = max(world["sim"]["scheduler_frequency"], 1)
        delay = world["flags"]["scheduler_delay"]
        need = 0
        last_rel = 0
        for s in tasks:
            node = ctx.nodes[s.base][s.node]
            prof = world["profiles"][node["profile"]]
            rt = max(st["runtime"] for st in prof["strategies"])
            need += rt * (100 + v) // 100 + 1 + freq + delay + 2 + 2 * max(pol.get("runtime", 0), 0)
        for tg in ctx.built.workload.task_graphs.values():
            for t in tg.get_nodes():
                rt_ = _us(t.release_time)
                if rt_ is not None and rt_ > last_rel:
                    last_rel = rt_
        if last_rel + need + 10 >= timeout:
            ctx.probe("c05_timeout_not_generous")
            return
        ctx.probe("c05_completeness_evaluated")
        if end_t >= timeout:
            inv = ctx.invocations
            report("feasible_work_hit_timeout",
                        f"feasible world under {pol['name']} ran until the timeout {timeout} "
                        f"(work bound {last_rel + need})",
                        {"all_tasks_done": all(s.state in ("COMPLETED", "CANCELLED") for s in tasks),
                         "last_two_invocations_same_instant":
                             len(inv) >= 2 and inv[-1]["t"] == inv[-2]["t"]})
        for s in tasks:
            if s.state not in ("COMPLETED", "CANCELLED"):
                report("feasible_task_not_completed",
                            f"{s.uname} ended in state {s.state} under {pol['name']} although every task "
                            f"fits the empty cluster", {"policy": pol["name"], "state": s.state})
                break
            if s.state == "CANCELLED" and not on_untaken_branch(ctx, s):
                report("feasible_task_cancelled",
                            f"{s.uname} was cancelled under {pol['name']} without enforcement/drop",
                            {"policy": pol["name"], "graph_has_arm_only_sink": _has_arm_only_sink(ctx, s.base)})
                break


def _has_arm_only_sink(ctx, base):
    """does the graph have a sink that hangs off one arm of a conditional (a side output)?  When another arm is
    taken that sink is cancelled, and the simulator then regards the whole graph as cancelled"""
    nodes = ctx.nodes.get(base, {})
    for cn, nd in nodes.items():
        if not nd.get("conditional"):
            continue
        term = matching_terminal(ctx, base, cn)
        for k in nd["children"]:
            for n in branch_nodes(ctx, base, k, term):
                if n != term and not nodes[n]["children"]:
                    return True
                for c in nodes[n]["children"]:
                    if c != term and not nodes[c]["children"] and not nodes[c].get("terminal"):
                        return True
    return False


def on_untaken_branch(ctx, s):
    """is the task downstream of a conditional child that was not released?"""
    base, graph = s.base, s.graph
    untaken = untaken_roots(ctx, graph)
    if not untaken:
        return False
    dead = dead_set(ctx, base, graph, untaken)
    return s.node in dead


def untaken_roots(ctx, graph):
    roots = set()
    base = graph.split("@")[0]
    for (g, cnode), ch in ctx.cond_choices.items():
        if g != graph:
            continue
        for k in ctx.children[base][cnode]:
            if k not in ch["released"]:
                roots.add(k)
    # conditionals that never completed because they themselves are dead are handled by closure
    return roots


def dead_set(ctx, base, graph, roots):
    """closure: a node is dead if it is a root, or all parents dead (join/terminal: every incoming
    branch dead), or (ordinary node) any parent dead."""
    nodes = ctx.nodes[base]
    parents = ctx.parents[base]
    dead = set(roots)
    changed = True
    order = list(nodes)
    while changed:
        changed = False
        for n in order:
            if n in dead:
                continue
            ps = parents[n]
            if not ps:
                continue
            if nodes[n].get("terminal"):
                d = all(p in dead for p in ps)
            else:
                d = any(p in dead for p in ps)
            if d:
                dead.add(n)
                changed = True
    return dead


# ----------------------------------------------------------------------- C06
def post_c06(ctx, parsed, res):
    cancel_rows = {}
    for r in parsed:
        if len(r) > 5 and r[1] == "TASK_CANCEL":
            cancel_rows[(r[5], r[2])] = cancel_rows.get((r[5], r[2]), 0) + 1
    fin_rows = {}
    for r in parsed:
        if len(r) > 2 and r[1] == "TASK_GRAPH_FINISHED":
            fin_rows[r[2]] = fin_rows.get(r[2], 0) + 1
    end_t = ctx.end_time
    cut = end_t is not None and end_t >= ctx.world["sim"]["loop_timeout"]
    graphs = {}
    for s in ctx.shadows.values():
        graphs.setdefault(s.graph, []).append(s)
    for graph, ss in graphs.items():
        base = graph.split("@")[0]
        if base not in ctx.nodes:
            continue
        bynode = {s.node: s for s in ss}
        cancelled = {s.node for s in ss if s.state == "CANCELLED"}
        if cancelled:
            dead = dead_set(ctx, base, graph, cancelled)
            for n in dead:
                s = bynode.get(n)
                if s is None:
                    continue
                if s.starts > 0 and s.start_time is not None and n not in cancelled:
                    # started although an input can no longer arrive; only a violation if the
                    # start came after the cancellation that killed it
                    first_cancel = min((bynode[c].cancel_time or 0) for c in cancelled if c in bynode)
                    if s.start_time >= first_cancel and not s.finishes:
                        pass
                if s.state != "CANCELLED" and s.starts == 0:
                    ctx.violate("C06", "descendant_not_cancelled",
                                f"{s.uname} can no longer receive its inputs (cancelled upstream: "
                                f"{sorted(cancelled)}) but ended in state {s.state}",
                                {"state": s.state, "conditional_graph": any(
                                    x.get("conditional") for x in ctx.nodes[base].values())})
                    break
                if s.starts > 0 and n not in cancelled:
                    # it ran: legal only if it started before its input died
                    kill = [bynode[c].cancel_time for c in cancelled if c in bynode and
                            bynode[c].cancel_time is not None]
                    if kill and s.start_time is not None and s.start_time > min(kill) and \
                            not _has_live_path(ctx, base, n, cancelled, bynode):
                        ctx.violate("C06", "dead_descendant_started",
                                    f"{s.uname} started at {s.start_time} after its inputs were cancelled",
                                    {})
                        break
            for n in cancelled:
                if cancel_rows.get((graph, n), 0) != 1:
                    ctx.violate("C06", "cancel_not_reported",
                                f"{n}@{graph} is CANCELLED but has {cancel_rows.get((graph, n), 0)} "
                                f"TASK_CANCEL rows", {"rows": cancel_rows.get((graph, n), 0)})
                    break
        # task graph finished exactly when all sinks completed
        sinks = [n for n, nd in ctx.nodes[base].items() if not nd["children"]]
        all_done = all(n in bynode and bynode[n].state == "COMPLETED" for n in sinks)
        if all_done and fin_rows.get(graph, 0) != 1:
            ctx.violate("C06", "graph_finish_not_reported",
                        f"all sinks of {graph} completed but {fin_rows.get(graph, 0)} TASK_GRAPH_FINISHED rows",
                        {"rows": fin_rows.get(graph, 0)})
        if not all_done and fin_rows.get(graph, 0) > 0:
            ctx.violate("C06", "graph_finish_reported_early",
                        f"{graph} reported finished but sinks are "
                        f"{[(n, bynode[n].state if n in bynode else None) for n in sinks]}", {})
        tg = ctx.built.workload.task_graphs.get(graph)
        if tg is not None and bool(tg.is_complete()) != all_done:
            ctx.violate("C06", "is_complete_disagrees", f"{graph}.is_complete()={tg.is_complete()} but "
                        f"sinks completed={all_done}", {})


def _has_live_path(ctx, base, n, cancelled, bynode):
    return False


# ----------------------------------------------------------------------- C07
def post_c07(ctx, parsed, res, safety_only=False):
    """safety_only (a run that crashed): only the clauses that are established facts at the moment they
    happen (a branch that must not run started, the join started before the taken branch finished, ...);
    the clauses about final states are skipped, the crash may have interrupted a handler half-way"""
    resolve = ctx.world["flags"].get("resolve_conditionals_at_submission")
    end_t = ctx.end_time
    cut = end_t is not None and end_t >= ctx.world["sim"]["loop_timeout"]
    pol_ = ctx.world["policy"]
    natural_end = (end_t is not None and not cut and pol_["name"] in ("EDF", "FIFO", "LSF")
                   and not pol_.get("enforce_deadlines") and not ctx.world["flags"].get("drop_skipped_tasks"))
    for (graph, cnode), ch in ctx.cond_choices.items():
        base = graph.split("@")[0]
        kids = ctx.children[base][cnode]
        released = ch["released"]
        cs = ctx.by_key.get((graph, cnode))
        if cs is None or cs.state != "COMPLETED":
            continue
        probs = {}
        for k in kids:
            ks = ctx.by_key.get((graph, k))
            probs[k] = ctx.nodes[base][k].get("probability", 1.0)
        if len(released) == 0 and len(ch.get("deferred", [])) == 1:
            # the chosen child waits for a side input; it counts as the branch taken
            released = list(ch["deferred"])
            ctx.probe("c07_choice_deferred_by_side_input")
        if len(released) != 1:
            def _seq_of(sh, state):
                for (sq, _t, st, _via) in sh.hist:
                    if st == state:
                        return sq
                return None

            done_seq = _seq_of(cs, "COMPLETED")
            kid_cancelled_before = any(
                ctx.by_key.get((graph, k)) is not None and ctx.by_key[(graph, k)].state == "CANCELLED"
                and _seq_of(ctx.by_key[(graph, k)], "CANCELLED") is not None and done_seq is not None
                and _seq_of(ctx.by_key[(graph, k)], "CANCELLED") < done_seq for k in kids)
            if len(released) == 0 and kid_cancelled_before:
                # a policy had cancelled a child before the conditional completed; nothing is
                # left to choose from (a consequence of the cancellation, C06's business)
                ctx.probe("conditional_children_cancelled_by_policy")
            else:
                ctx.violate("C07", "not_exactly_one_branch",
                            f"conditional {cnode}@{graph} released {released} (children {kids})",
                            {"released": len(released), "resolve_at_submission": bool(resolve)})
            continue
        taken = released[0]
        if not resolve and probs.get(taken, 1.0) <= 0.0:
            ctx.violate("C07", "zero_probability_branch_taken",
                        f"conditional {cnode}@{graph} released {taken} whose probability is 0", {})
        if resolve:
            sub = ctx.submitted_choice.get((graph, cnode)) if hasattr(ctx, "submitted_choice") else None
            if sub is not None and sub != taken:
                ctx.violate("C07", "resolved_branch_not_taken",
                            f"conditional {cnode}@{graph}: resolved {sub} at submission, ran {taken}", {})
        # every task on the untaken branches, up to but excluding the terminal, is cancelled
        term = matching_terminal(ctx, base, cnode)
        for k in kids:
            if k == taken:
                continue
            for n in branch_nodes(ctx, base, k, term):
                s = ctx.by_key.get((graph, n))
                if s is None:
                    continue
                if s.starts > 0:
                    ctx.violate("C07", "untaken_branch_task_started",
                                f"{s.uname} on the branch not taken by {cnode} started at {s.start_time}", {})
                elif s.state != "CANCELLED" and not safety_only:
                    ctx.violate("C07", "untaken_branch_task_not_cancelled",
                                f"{s.uname} on the branch not taken by {cnode} ended in state {s.state}",
                                {"state": s.state, "forked_branch": _branch_forks(ctx, base, k, term)})
        # liveness of the taken branch: in a run of a work-conserving policy that reached its natural end, with no
        # cancellation decided by the policy in this graph, the chosen child has run (if it fits the cluster at all)
        if not safety_only and natural_end and not _cancelled_by_policy(ctx, graph):
            tk = ctx.by_key.get((graph, taken))
            if tk is not None and tk.starts == 0 and tk.state not in ("CANCELLED", "COMPLETED") \
                    and feasible_task(ctx, tk):
                ctx.violate("C07", "taken_branch_never_ran",
                            f"conditional {cnode}@{graph} chose {taken}, which ended in state {tk.state} although "
                            f"the run ended at {end_t}, before its timeout", {"state": tk.state})
        # the join and everything after it run once the taken branch completes
        if term is not None:
            ts = ctx.by_key.get((graph, term))
            taken_nodes = branch_nodes(ctx, base, taken, term)
            taken_done = all(ctx.by_key.get((graph, n)) is not None and
                             ctx.by_key[(graph, n)].state == "COMPLETED" for n in taken_nodes)
            if ts is not None:
                if ts.state == "CANCELLED" and taken_done and not safety_only and \
                        not _cancelled_by_policy(ctx, graph):
                    ctx.violate("C07", "join_cancelled", f"{ts.uname} cancelled although the taken branch "
                                f"{taken} completed", {"graph_has_arm_only_sink": _has_arm_only_sink(ctx, base)})
                if ts.starts > 0:
                    # must start after the taken branch completed
                    feeders = [p for p in ctx.parents[base][term] if p in taken_nodes or p == taken]
                    for p in feeders:
                        ps = ctx.by_key.get((graph, p))
                        if ps is None or ps.finish_time is None or ts.start_time < ps.finish_time:
                            ctx.violate("C07", "join_before_taken_branch",
                                        f"{ts.uname} started at {ts.start_time} before taken-branch node {p} "
                                        f"finished ({ps.finish_time if ps else None})",
                                        {"join_is_child_of_conditional": term in ctx.children[base][cnode]})
                    ctx.probe("join_ran_after_taken_branch")
                if ts.starts > 1:
                    ctx.violate("C07", "join_ran_twice", f"{ts.uname}", {})


def _cancelled_by_policy(ctx, graph):
    return bool(ctx.world["policy"].get("enforce_deadlines") or ctx.world["flags"]["drop_skipped_tasks"]
                or ctx.world["policy"]["name"] == "Chaos" or ctx.policy_cancelled.get(graph))


def matching_terminal(ctx, base, cnode):
    """first terminal reachable from every child (nesting aware: depth counting)."""
    nodes = ctx.nodes[base]
    children = ctx.children[base]

    def walk(n, depth, seen):
        # returns the matching terminal following any path
        while True:
            nd = nodes[n]
            if nd.get("terminal"):
                if depth == 0:
                    return n
                depth -= 1
            if nd.get("conditional"):
                depth += 1
            ch = children[n]
            if not ch:
                return None
            n = ch[0]

    kids = children[cnode]
    if not kids:
        return None
    return walk(kids[0], 0, set())


def branch_nodes(ctx, base, start, term):
    """nodes reachable from `start` without passing through `term` (exclusive)"""
    children = ctx.children[base]
    out, st = [], [start]
    seen = set()
    while st:
        n = st.pop()
        if n in seen or n == term:
            continue
        seen.add(n)
        out.append(n)
        st.extend(children[n])
    return out


def _branch_forks(ctx, base, start, term):
    return any(len(ctx.children[base][n]) > 1 for n in branch_nodes(ctx, base, start, term))


# ----------------------------------------------------------------------- C02 (trace level)
def post_c02_trace(ctx, parsed):
    """the same facts re-derived from the rows a user sees"""
    rel, place, fin = {}, {}, {}
    for r in parsed:
        if len(r) < 2:
            continue
        if r[1] == "TASK_RELEASE":
            rel.setdefault((r[8], r[2]), int(r[0]))
        elif r[1] == "TASK_PLACEMENT":
            k = (r[3], r[2])
            if k in place:
                ctx.violate("C02", "trace_started_twice", f"{r[2]}@{r[3]} has two TASK_PLACEMENT rows", {})
            place[k] = int(r[0])
        elif r[1] == "TASK_FINISHED":
            k = (r[4], r[2])
            if k in fin:
                ctx.violate("C02", "trace_finished_twice", f"{r[2]}@{r[4]} has two TASK_FINISHED rows", {})
            fin[k] = int(r[0])
    for (graph, node), t in place.items():
        base = graph.split("@")[0]
        if base not in ctx.nodes:
            continue
        if (graph, node) not in rel or rel[(graph, node)] > t:
            ctx.violate("C02", "trace_start_before_release",
                        f"{node}@{graph} placed at {t}, TASK_RELEASE row at {rel.get((graph, node))}", {})
        ps = ctx.parents[base][node]
        if ps:
            done = [(p, (graph, p) in fin and fin[(graph, p)] <= t) for p in ps]
            ok = any(d for _, d in done) if ctx.nodes[base][node].get("terminal") else all(d for _, d in done)
            if not ok:
                ctx.violate("C02", "trace_start_before_predecessors",
                            f"{node}@{graph} placed at {t}; predecessor finish rows: "
                            f"{[(p, fin.get((graph, p))) for p in ps]}", {})


# ----------------------------------------------------------------------- C18 starvation
def post_c18(ctx, parsed):
    pass


# ----------------------------------------------------------------------- C12 (end to end)
def post_c12(ctx):
    """in runs of the planners with enforcement and exact runtimes every task that completes does so by
    its deadline -- evaluated for tasks that started at the time their planner chose; a start that was
    legitimately deferred (WORKER_NOT_READY / TASK_NOT_READY) is counted, not alarmed."""
    pol = ctx.world["policy"]
    name = pol["name"]
    if name not in ("ILP", "TetriSchedGurobi", "TetriSchedCPLEX", "Clockwork"):
        return
    if not pol.get("enforce_deadlines") or ctx.variance:
        return
    if name == "ILP" and pol.get("release_taskgraphs"):
        return
    if (ctx.world.get("faults", {}).get("solver_chaos") or {}).get("on"):
        pass  # alternative feasible points must respect deadlines as well
    for s in ctx.shadows.values():
        if not s.finishes or s.finish_time is None:
            continue
        dl = _us(s.task.deadline)
        ctx.probe("c12_completed_task_checked")
        if s.finish_time > dl:
            if s.ever_deferred or s.start_time != s.chosen_time:
                ctx.probe("c12_late_after_deferral")
                continue
            ctx.violate("C12", "completed_after_deadline",
                        f"{name} with deadline enforcement and exact runtimes: {s.uname} started at its planned "
                        f"time {s.start_time} and completed at {s.finish_time} > deadline {dl}", {"policy": name})
            return
