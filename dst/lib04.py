"""C04: operation histories on Resources / Worker / WorkerPool against an integer
reference ledger.  Two modes: "R" (a Resources object: allocate / allocate_multiple /
deallocate / copy / deepcopy) and "W" (a pool of workers: place / place-in-batch / remove /
load / evict / copy / deepcopy, continuing on the copy and on the original).
Fault kind F7 = requests above availability, removal of unknown tasks, eviction of unknown
profiles, at arbitrary points of the history."""
import hashlib
import random

from . import env

TYPES = ["Slot", "GPU", "RAM"]


def gen_history(seed):
    r = random.Random(f"{seed}:c04")
    mode = r.choice(["R", "W", "W"])
    ntypes = r.choice([1, 2, 2, 3])
    vec = []
    for t in TYPES[:ntypes]:
        for i in range(r.choice([1, 1, 2, 3])):
            vec.append([t, f"{t[0].lower()}{i}", r.choice([0, 1, 1, 2, 3])])
    nworkers = 1 if mode == "R" else r.choice([1, 1, 2])
    vecs = [vec]
    for _ in range(nworkers - 1):
        v2 = [[t, i, r.choice([0, 1, 2, 3])] for t, i, _ in vec]
        vecs.append(v2)
    mixed = r.random() < 0.10  # requests mixing `any` and a specific id of one type
    ops = []
    n = r.randint(4, 25)

    def req():
        k = r.choice([1, 1, 2])
        out = {}
        for t in r.sample(TYPES[:ntypes], min(k, ntypes)):
            ids = [i for tt, i, _ in vec if tt == t]
            if r.random() < 0.25:
                out[f"{t}:{r.choice(ids)}"] = r.choice([1, 1, 2])
                if mixed and r.random() < 0.5:
                    out[f"{t}:any"] = r.choice([1, 2])
            else:
                out[f"{t}:any"] = r.choice([1, 1, 2, 3, 4])
        return out

    nstrat = r.choice([2, 3, 4])
    strategies = [{"req": req(), "batch": r.choice([1, 1, 2, 3])} for _ in range(nstrat)]
    for _ in range(n):
        k = r.random()
        if mode == "R":
            if k < 0.3:
                res = r.choice(vec)
                rid = res[1] if r.random() < 0.4 else "any"
                ops.append(["allocate", f"{res[0]}:{rid}", r.randrange(5), r.choice([1, 1, 2, 3])])
            elif k < 0.55:
                ops.append(["allocate_multiple", req(), r.randrange(5)])
            elif k < 0.8:
                ops.append(["deallocate", r.randrange(5)])
            elif k < 0.9:
                ops.append(["copy", r.choice(["continue_on_copy", "continue_on_original"])])
            elif k < 0.95 and any(o[0] == "copy" for o in ops):
                ops.append(["switch"])
            else:
                ops.append(["deepcopy"])
        else:
            if k < 0.3:
                ops.append(["place", r.randrange(6), r.randrange(nstrat), r.randrange(nworkers),
                            r.random() < 0.5])
            elif k < 0.45:
                ops.append(["place_batch", r.randrange(6), r.randrange(nstrat), r.randrange(nworkers)])
            elif k < 0.7:
                ops.append(["remove", r.randrange(6)])
            elif k < 0.78:
                ops.append(["load", r.randrange(2), r.randrange(nstrat), r.randrange(nworkers)])
            elif k < 0.84:
                ops.append(["evict", r.randrange(2), r.randrange(nworkers)])
            elif k < 0.90:
                ops.append(["copy", r.choice(["continue_on_copy", "continue_on_original"])])
            elif k < 0.94 and any(o[0] == "copy" for o in ops):
                ops.append(["switch"])
            elif k < 0.97:
                ops.append(["deepcopy"])
            else:
                ops.append(["remove_all"])
    if mode == "W":
        # a worker may declare one instance of a type without an id (`any`): requests that name a specific id
        # of that type are then served by it (Resource equality treats `any` as a wildcard on either side)
        ra = random.Random(f"{seed}:c04:anyid")
        for v in vecs:
            if ra.random() < 0.25:
                t = ra.choice(sorted({x[0] for x in v}))
                # the type becomes one id-less instance holding the type's whole quantity (an id-less instance
                # next to named ones of the same type makes per-instance occupancy ambiguous: `any` also
                # matches the named ids when a copy re-applies the allocations)
                q = sum(x[2] for x in v if x[0] == t)
                k = [j for j, x in enumerate(v) if x[0] == t][0]
                v[:] = [x for j, x in enumerate(v) if x[0] != t or j == k]
                for x in v:
                    if x[0] == t:
                        x[1], x[2] = "any", q
    return {"seed": seed, "mode": mode, "vecs": vecs, "strategies": strategies, "ops": ops}


def run_history(case):
    env.bootstrap()
    if case["mode"] == "R":
        return _run_R(case)
    return _run_W(case)


def has_mixed(case):
    """does the history contain a request naming `any` and a specific id of one resource type?"""
    def mx(req):
        return len({k.split(":")[0] for k in req}) < len(req)
    return any(mx(st["req"]) for st in case["strategies"]) or \
        any(o[0] == "allocate_multiple" and mx(o[1]) for o in case["ops"])


class _V:
    def __init__(self, case=None):
        self.violations = []
        self.probes = {}
        self.mixed = has_mixed(case) if case else False

    def vio(self, oracle, detail, cause=None):
        if self.mixed:
            # histories with a request naming `any` and a specific id of one type run into one known
            # root cause that can surface through any oracle: report them under one oracle name
            cause = {"mixed_any_and_specific_request": True, "original_oracle": oracle}
            detail = f"[{oracle}] {detail}"
            oracle = "mixed_request_inconsistency"
        else:
            cause = dict(cause or {})
            cause["mixed_any_and_specific_request"] = False
        if not any(v["oracle"] == oracle for v in self.violations):
            self.violations.append({"property": "C04", "oracle": oracle, "detail": detail, "cause": cause})

    def probe(self, k):
        self.probes[k] = self.probes.get(k, 0) + 1


def _result(case, V, n_ok):
    fp = (case["mode"], tuple(sorted(V.probes)), len(case["vecs"]), len(case["vecs"][0]),
          tuple(tuple(map(str, o[:2])) for o in case["ops"][:5]))
    return {"seed": case.get("seed"), "outcome": "ended", "violations": V.violations, "probes": V.probes,
            "faults": {"refused_requests": V.probes.get("refused", 0)},
            "stats": {"ops": len(case["ops"]), "started": n_ok},
            "fingerprint": hashlib.md5(repr(fp).encode()).hexdigest()[:16],
            "trace_tail": [[i, 0, "OP", o] for i, o in enumerate(case["ops"])][-50:]}


# ------------------------------------------------------------------ Resources mode
def _snapshot_R(res, keys, comps):
    from workload import Resource

    snap = []
    for (t, i, q) in keys:
        rr = Resource(name=t, _id=i)
        snap.append((t, i, res.get_available_quantity(rr), res.get_total_quantity(rr),
                     res.get_allocated_quantity(rr),
                     tuple(sorted((getattr(c, "name", str(c)), n) for c, n in res.get_allocated_computation(rr)))))
    types = sorted({t for t, _, _ in keys})
    for t in types:
        rr = Resource(name=t, _id="any")
        snap.append((t, "any", res.get_available_quantity(rr), res.get_total_quantity(rr),
                     res.get_allocated_quantity(rr)))
    return snap


def _satisfiable(avail_by_id, req):
    """exists an assignment: specific ids first, then `any` from what is left"""
    left = dict(avail_by_id)
    for k, q in req.items():
        t, i = k.split(":")
        if i != "any":
            if left.get((t, i), 0) < q:
                return False
            left[(t, i)] -= q
    for k, q in req.items():
        t, i = k.split(":")
        if i == "any":
            if sum(v for (tt, _), v in left.items() if tt == t) < q:
                return False
            # consume greedily (any distribution works for by-type feasibility)
            need = q
            for kk in list(left):
                if kk[0] == t and need > 0:
                    d = min(left[kk], need)
                    left[kk] -= d
                    need -= d
    return True


def _run_R(case):
    from copy import copy, deepcopy

    from workload import Job, Resource, Resources, Task
    from utils import EventTime

    V = _V(case)
    keys = [tuple(x) for x in case["vecs"][0]]
    res = Resources(resource_vector={Resource(name=t, _id=i): q for t, i, q in keys})
    job = Job(name="j")
    comps = [Task(name=f"c{i}", task_graph="g", job=job, deadline=EventTime(10, EventTime.Unit.US))
             for i in range(5)]
    # reference: per computation, allocated by type; and total by (type,id)
    ref = {}  # comp index -> {type: q}
    other = None  # (the copy not being continued on, its snapshot)
    n_ok = 0

    def avail_by_id(r_):
        return {(t, i): r_.get_available_quantity(Resource(name=t, _id=i)) for t, i, _ in keys}

    def invariants(tag):
        ab = avail_by_id(res)
        for (t, i, q) in keys:
            a = ab[(t, i)]
            if a < 0 or a > q:
                V.vio("available_out_of_range", f"{tag}: {t}:{i} available {a} of {q}")
            al = res.get_allocated_quantity(Resource(name=t, _id=i))
            if a + al != q:
                V.vio("conservation_by_id", f"{tag}: {t}:{i} available {a} + allocated {al} != total {q}")
            holders = sum(n for _, n in res.get_allocated_computation(Resource(name=t, _id=i)))
            if holders != q - a:
                V.vio("records_disagree", f"{tag}: {t}:{i} total {q} available {a}, allocation records {holders}")
        for t in sorted({t for t, _, _ in keys}):
            tot = sum(q for tt, _, q in keys if tt == t)
            a = res.get_available_quantity(Resource(name=t, _id="any"))
            want = tot - sum(v.get(t, 0) for v in ref.values())
            if a != want:
                V.vio("conservation_by_type",
                      f"{tag}: {t} available {a}, total {tot} minus live allocations gives {want}",
                      {"more_free_than_expected": a > want})
        if not ref:
            for (t, i, q) in keys:
                if ab[(t, i)] != q:
                    V.vio("empty_not_full_capacity", f"{tag}: nothing allocated but {t}:{i} has {ab[(t, i)]}/{q}")

    for op in case["ops"]:
        tag = f"after {op}"
        try:
            if op[0] == "allocate":
                t, i = op[1].split(":")
                rr = Resource(name=t, _id=i)
                before = _snapshot_R(res, keys, comps)
                can = res.get_available_quantity(rr) >= op[3]
                try:
                    res.allocate(rr, comps[op[2]], op[3])
                except ValueError:
                    V.probe("refused")
                    if can:
                        V.vio("refused_satisfiable", f"{op}: refused although {op[3]} of {op[1]} was available")
                    if _snapshot_R(res, keys, comps) != before:
                        V.vio("refusal_changed_state", f"{op}: a refused request changed the ledger",
                              {"op": "allocate"})
                else:
                    if not can:
                        V.vio("granted_unsatisfiable", f"{op}: granted more than available")
                    ref.setdefault(op[2], {})
                    ref[op[2]][t] = ref[op[2]].get(t, 0) + op[3]
                    n_ok += 1
                    if i != "any":
                        got = [(r_.id, q) for r_, q in res.get_allocated_resources(comps[op[2]]) if r_.name == t]
                        V.probe("specific_id_request")
            elif op[0] == "allocate_multiple":
                req = op[1]
                before = _snapshot_R(res, keys, comps)
                can = _satisfiable(avail_by_id(res), req)
                rq = Resources(resource_vector={Resource(name=k.split(":")[0], _id=k.split(":")[1]): q
                                                for k, q in req.items()})
                mixed = len({k.split(":")[0] for k in req}) < len(req)
                try:
                    res.allocate_multiple(rq, comps[op[2]])
                except ValueError:
                    V.probe("refused")
                    if can:
                        V.vio("refused_satisfiable", f"{op}: refused although satisfiable", {"mixed": mixed})
                    if _snapshot_R(res, keys, comps) != before:
                        V.vio("refusal_changed_state", f"{op}: a refused request changed the ledger",
                              {"op": "allocate_multiple", "any_and_specific_id_of_one_type": mixed})
                        # resynchronise the reference with what actually leaked, to go on
                        ref.clear()
                        for ci, c in enumerate(comps):
                            for r_, q in res.get_allocated_resources(c) if c in res._current_allocations else []:
                                ref.setdefault(ci, {})
                                ref[ci][r_.name] = ref[ci].get(r_.name, 0) + q
                else:
                    if not can:
                        V.vio("granted_unsatisfiable", f"{op}: granted although not satisfiable",
                              {"mixed": mixed})
                    ref.setdefault(op[2], {})
                    for k, q in req.items():
                        t = k.split(":")[0]
                        ref[op[2]][t] = ref[op[2]].get(t, 0) + q
                    n_ok += 1
            elif op[0] == "deallocate":
                before = _snapshot_R(res, keys, comps)
                try:
                    res.deallocate(comps[op[1]])
                except ValueError:
                    V.probe("refused")
                    if op[1] in ref:
                        V.vio("deallocate_refused", f"{op}: refused for a computation that holds resources")
                    if _snapshot_R(res, keys, comps) != before:
                        V.vio("refusal_changed_state", f"{op}: a refused deallocate changed the ledger",
                              {"op": "deallocate"})
                else:
                    if op[1] not in ref:
                        V.vio("deallocate_unknown_accepted", f"{op}: deallocate of a computation without "
                              f"allocations was accepted")
                    ref.pop(op[1], None)
                    n_ok += 1
            elif op[0] == "copy":
                snap = _snapshot_R(res, keys, comps)
                cp = copy(res)
                if _snapshot_R(cp, keys, comps) != snap:
                    V.vio("copy_differs", f"copy() has different occupancy than the original")
                V.probe("copy")
                ref_cp = {k_: (list(v_) if isinstance(v_, list) else (dict(v_) if isinstance(v_, dict) else v_))
                          for k_, v_ in ref.items()}
                if op[1] == "continue_on_copy":
                    other = (res, snap, ref_cp)
                    res = cp
                else:
                    other = (cp, snap, ref_cp)
            elif op[0] == "switch":
                # carry on with the other side of the last copy(): both sides stay live and independent
                if other is not None:
                    cur = (res, _snapshot_R(res, keys, comps), ref)
                    res, _, ref = other
                    other = cur
                    V.probe("switched_side")
            elif op[0] == "deepcopy":
                dc = deepcopy(res)
                for (t, i, q) in keys:
                    if dc.get_available_quantity(Resource(name=t, _id=i)) != q:
                        V.vio("deepcopy_not_empty", f"deepcopy(): {t}:{i} not at full capacity")
                V.probe("deepcopy")
                snap = _snapshot_R(res, keys, comps)
                # mutate the deep copy, the original must not move
                try:
                    dc.allocate(Resource(name=keys[0][0], _id="any"), comps[0], 1)
                except ValueError:
                    pass
                if _snapshot_R(res, keys, comps) != snap:
                    V.vio("deepcopy_not_independent", "mutating a deepcopy changed the original")
            invariants(tag)
            if other is not None and _snapshot_R(other[0], keys, comps) != other[1]:
                V.vio("copy_not_independent", f"{tag}: the other side of an earlier copy() changed")
                other = None
        except Exception as e:  # noqa
            V.vio("exception", f"{op}: {type(e).__name__}: {e}", {"op": op[0], "exc": type(e).__name__})
            break
    # removing everything restores full capacity
    if not V.violations:
        for ci in list(ref):
            res.deallocate(comps[ci])
            ref.pop(ci)
        invariants("after releasing everything")
    return _result(case, V, n_ok)


# ------------------------------------------------------------------ Worker mode
def _run_W(case):
    from copy import copy, deepcopy

    from utils import EventTime
    from workers import Worker, WorkerPool
    from workload import (BatchStrategy, ExecutionStrategies, ExecutionStrategy, Job, Resource, Resources,
                          Task, WorkProfile)

    V = _V(case)
    US = lambda x: EventTime(x, EventTime.Unit.US)  # noqa
    vecs = case["vecs"]
    workers = []
    for wi, vec in enumerate(vecs):
        workers.append(Worker(name=f"w{wi}", resources=Resources(
            resource_vector={Resource(name=t, _id=i): q for t, i, q in vec})))
    pool = WorkerPool(name="p", workers=workers)
    job = Job(name="j")
    tasks = [Task(name=f"t{i}", task_graph="g", job=job, deadline=US(100)) for i in range(6)]

    def mk(s):
        return ExecutionStrategy(resources=Resources(resource_vector={
            Resource(name=k.split(":")[0], _id=k.split(":")[1]): q for k, q in s["req"].items()}),
            batch_size=s["batch"], runtime=US(3))

    strategies = [mk(s) for s in case["strategies"]]
    batch = {}  # strategy index -> live BatchStrategy
    profiles = [WorkProfile(name=f"m{i}", execution_strategies=ExecutionStrategies([strategies[0]]))
                for i in range(2)]
    # reference
    where = {}  # task idx -> (worker idx, strategy object, demand by type, batch key or None)
    batches = {}  # (worker idx, id(batchstrategy)) -> set(task idx)
    loaded = {}  # (profile idx, worker idx) -> demand by type
    other = None
    n_ok = 0

    def dem(st):
        d = {}
        for r_, q in st.resources.resources:
            d[r_.name] = d.get(r_.name, 0) + q
        return d

    def snap(p_):
        out = []
        for w in p_.workers:
            row = []
            for r_, tot in w.resources.resources:
                row.append((r_.name, r_.id, w.resources.get_available_quantity(r_)))
            out.append((w.name, tuple(row), tuple(sorted(t.name for t in w.get_placed_tasks())),
                        tuple(sorted(p.name for p in w.get_available_profiles())),
                        tuple(sorted(p.name for p in w.get_pending_profiles()))))
        out.append(tuple(sorted(t.name for t in p_.get_placed_tasks())))
        return out

    def used(wi):
        u = {}
        seen = set()
        for ti, (w_, st, d, bk) in where.items():
            if w_ != wi:
                continue
            if bk is not None:
                if bk in seen:
                    continue
                seen.add(bk)
            for t, q in d.items():
                u[t] = u.get(t, 0) + q
        for (pi, w_), d in loaded.items():
            if w_ == wi:
                for t, q in d.items():
                    u[t] = u.get(t, 0) + q
        return u

    def fits(wi, st):
        u = used(wi)
        tot = {}
        for t, i, q in vecs[wi]:
            tot[t] = tot.get(t, 0) + q
        spec = any(r_.id != "any" for r_, _ in st.resources.resources)
        if spec:
            return None
        return all(tot.get(t, 0) - u.get(t, 0) >= q for t, q in dem(st).items())

    def invariants(tag):
        ws = pool.workers
        for wi, w in enumerate(ws):
            u = used(wi)
            types = sorted({t for t, _, _ in vecs[wi]})
            for t in types:
                tot = sum(q for tt, _, q in vecs[wi] if tt == t)
                a = w.resources.get_available_quantity(Resource(name=t, _id="any"))
                al = w.resources.get_allocated_quantity(Resource(name=t, _id="any"))
                if a + al != tot:
                    V.vio("conservation_by_type", f"{tag}: {w.name} {t}: available {a} + allocated {al} != {tot}")
                if al != u.get(t, 0):
                    V.vio("held_iff_resident",
                          f"{tag}: {w.name} {t}: {al} allocated, resident tasks/batches/profiles demand "
                          f"{u.get(t, 0)}", {"more_allocated": al > u.get(t, 0),
                                             "batch_involved": any(b is not None for _, _, _, b in where.values()) or bool(batches)})
                if a < 0:
                    V.vio("negative_available", f"{tag}: {w.name} {t} available {a}")
            placed = sorted(t.name for t in w.get_placed_tasks())
            want = sorted(tasks[ti].name for ti, (w_, _, _, _) in where.items() if w_ == wi)
            if placed != want:
                V.vio("placed_set", f"{tag}: {w.name} get_placed_tasks {placed}, reference {want}")
        # the pool's own view (WorkerPool.resources) is the sum of its workers' ledgers, after every operation
        pr = pool.resources
        for t in sorted({t for v_ in vecs for t, _, _ in v_}):
            rt_ = Resource(name=t, _id="any")
            a_p, al_p = pr.get_available_quantity(rt_), pr.get_allocated_quantity(rt_)
            a_w = sum(w.resources.get_available_quantity(rt_) for w in ws)
            al_w = sum(w.resources.get_allocated_quantity(rt_) for w in ws)
            if (a_p, al_p) != (a_w, al_w):
                V.vio("pool_view_differs", f"{tag}: pool.resources reports {t} available {a_p} / allocated {al_p}, "
                      f"its workers sum to {a_w} / {al_w}", {"more_available": a_p > a_w})
        if not where and not loaded:
            for wi, w in enumerate(ws):
                for t, i, q in vecs[wi]:
                    if i == "any" or any(tt == t and ii == "any" for tt, ii, _ in vecs[wi]):
                        # an id-less instance answers for the whole type
                        i, q = "any", sum(qq for tt, _, qq in vecs[wi] if tt == t)
                    if w.resources.get_available_quantity(Resource(name=t, _id=i)) != q:
                        V.vio("empty_not_full_capacity", f"{tag}: nothing resident but {w.name} {t}:{i} not full",
                              {})

    def do_place(ti, st, wi, via_pool, bkey):
        nonlocal n_ok
        before = snap(pool)
        w = pool.workers[wi]
        if ti in where:
            return  # placing a resident task again is outside the API contract
        expect = fits(wi, st)
        if bkey is not None and (wi, bkey) in batches and batches[(wi, bkey)]:
            expect = len(batches[(wi, bkey)]) < st.batch_size or None
            if len(batches[(wi, bkey)]) >= st.batch_size:
                return  # over-filling a batch raises RuntimeError by contract; not generated
        can = w.can_accomodate_strategy(st)
        if expect is not None and can != expect:
            V.vio("can_accomodate_wrong",
                  f"place {tasks[ti].name} on {w.name}: can_accomodate_strategy={can}, reference fit={expect}",
                  {"batch": bkey is not None, "said_yes": can})
        if via_pool:
            ok = pool.place_task(tasks[ti], execution_strategy=st, worker_id=w.id)
        else:
            if not can:
                V.probe("refused")
                if (ti + wi) % 2:
                    return
                # F7 at the worker itself: the request is made although the fit test said no; the worker
                # must refuse it (ValueError) and nothing may change, the fit test included
                try:
                    w.place_task(tasks[ti], st)
                    forced = True
                except ValueError:
                    forced = False
                V.probe("forced_refusal" if not forced else "forced_accepted")
                if not forced:
                    if snap(pool) != before:
                        V.vio("refusal_changed_state", f"refused placement of {tasks[ti].name} on {w.name} "
                              f"changed the worker", {"op": "place_direct"})
                    if w.can_accomodate_strategy(st):
                        V.vio("refusal_changed_state", f"after the refused placement of {tasks[ti].name} on "
                              f"{w.name} the fit test for the same strategy says yes", {"op": "place_direct_fit"})
                    return
            else:
                w.place_task(tasks[ti], st)
            pool._placed_tasks[tasks[ti]] = w.id
            ok = True
        if ok:
            where[ti] = (wi, st, dem(st), bkey)
            if bkey is not None:
                batches.setdefault((wi, bkey), set()).add(ti)
            n_ok += 1
            V.probe("placed_batch" if bkey is not None else "placed")
        else:
            V.probe("refused")
            if snap(pool) != before:
                V.vio("refusal_changed_state", f"refused placement of {tasks[ti].name} changed the pool", {"op": "place"})

    for op in case["ops"]:
        tag = f"after {op}"
        try:
            if op[0] == "place":
                do_place(op[1], strategies[op[2]], op[3] % len(pool.workers), op[4], None)
            elif op[0] == "place_batch":
                si = op[2]
                if si not in batch:
                    batch[si] = BatchStrategy(strategies[si])
                    V.probe("new_batch_strategy")
                # a third of the batched placements go to the worker itself (incl. forced refusals)
                do_place(op[1], batch[si], op[3] % len(pool.workers), (op[1] + op[2] + op[3]) % 3 != 0,
                         id(batch[si]))
            elif op[0] == "remove":
                ti = op[1]
                before = snap(pool)
                try:
                    pool.remove_task(US(0), tasks[ti])
                except ValueError:
                    V.probe("refused")
                    if ti in where:
                        V.vio("remove_refused", f"{op}: refused for a resident task")
                    if snap(pool) != before:
                        V.vio("refusal_changed_state", f"{op}: refused removal changed the pool", {"op": "remove"})
                else:
                    if ti not in where:
                        V.vio("remove_unknown_accepted", f"{op}: removal of a non-resident task accepted")
                    else:
                        wi, st, d, bk = where.pop(ti)
                        if bk is not None:
                            batches[(wi, bk)].discard(ti)
                            if not batches[(wi, bk)]:
                                V.probe("batch_emptied")
                        n_ok += 1
            elif op[0] == "remove_all":
                for ti in list(where):
                    pool.remove_task(US(0), tasks[ti])
                    wi, st, d, bk = where.pop(ti)
                    if bk is not None:
                        batches[(wi, bk)].discard(ti)
                V.probe("remove_all")
            elif op[0] == "load":
                pi, si, wi = op[1], op[2], op[3] % len(pool.workers)
                if (pi, wi) in loaded:
                    continue
                st = strategies[si]
                before = snap(pool)
                expect = fits(wi, st)
                try:
                    pool.load_profile(profiles[pi], st, pool.workers[wi].id)
                except ValueError:
                    V.probe("refused")
                    if expect is True:
                        V.vio("load_refused", f"{op}: refused although it fits")
                    if snap(pool) != before:
                        V.vio("refusal_changed_state", f"{op}: refused load changed the pool", {"op": "load"})
                else:
                    if expect is False:
                        V.vio("load_granted_unsatisfiable", f"{op}: loaded although it does not fit")
                    loaded[(pi, wi)] = dem(st)
                    V.probe("loaded")
                    n_ok += 1
            elif op[0] == "evict":
                pi, wi = op[1], op[2] % len(pool.workers)
                before = snap(pool)
                try:
                    pool.evict_profile(profiles[pi], pool.workers[wi].id)
                except ValueError:
                    V.probe("refused")
                    if (pi, wi) in loaded:
                        V.vio("evict_refused", f"{op}: refused for a loaded profile")
                    if snap(pool) != before:
                        V.vio("refusal_changed_state", f"{op}: refused eviction changed the pool", {"op": "evict"})
                else:
                    if (pi, wi) not in loaded:
                        V.vio("evict_unknown_accepted", f"{op}: eviction of an unknown profile accepted")
                    loaded.pop((pi, wi), None)
                    V.probe("evicted")
            elif op[0] == "copy":
                s0 = snap(pool)
                cp = copy(pool)
                if snap(cp) != s0:
                    V.vio("copy_differs", "copy(pool) has different occupancy than the original")
                V.probe("copy")
                if batches and any(batches.values()):
                    V.probe("copy_with_live_batch")
                ref_cp = (dict(where), {k_: set(v_) for k_, v_ in batches.items()}, dict(loaded))
                if op[1] == "continue_on_copy":
                    other = (pool, s0, ref_cp)
                    pool = cp
                else:
                    other = (cp, s0, ref_cp)
            elif op[0] == "switch":
                # carry on with the other side of the last copy(): both sides stay live and independent
                if other is not None:
                    cur = (pool, snap(pool), (where, batches, loaded))
                    pool, _, (where, batches, loaded) = other
                    other = cur
                    V.probe("switched_side")
            elif op[0] == "deepcopy":
                dc = deepcopy(pool)
                for wi, w in enumerate(dc.workers):
                    for t, i, q in vecs[wi]:
                        if i == "any" or any(tt == t and ii == "any" for tt, ii, _ in vecs[wi]):
                            i, q = "any", sum(qq for tt, _, qq in vecs[wi] if tt == t)
                        if w.resources.get_available_quantity(Resource(name=t, _id=i)) != q:
                            V.vio("deepcopy_not_empty", f"deepcopy(pool): {w.name} {t}:{i} not at full capacity")
                    if w.get_placed_tasks():
                        V.vio("deepcopy_not_empty", f"deepcopy(pool): {w.name} holds tasks")
                s0 = snap(pool)
                for st in strategies:
                    if dc.can_accomodate_strategy(st):
                        dc.place_task(Task(name="x", task_graph="g", job=job, deadline=US(1)), execution_strategy=st)
                        break
                if snap(pool) != s0:
                    V.vio("deepcopy_not_independent", "mutating a deepcopy changed the original")
                V.probe("deepcopy")
            invariants(tag)
            if other is not None and snap(other[0]) != other[1]:
                V.vio("copy_not_independent", f"{tag}: the other side of an earlier copy() changed")
                other = None
        except Exception as e:  # noqa
            V.vio("exception", f"{op}: {type(e).__name__}: {e}",
                  {"op": op[0], "exc": type(e).__name__,
                   "after_copy": any(o[0] == "copy" for o in case["ops"][:case["ops"].index(op)]),
                   "batch": op[0] == "place_batch" or bool(batches)})
            break
    if not V.violations:
        try:
            for ti in list(where):
                pool.remove_task(US(0), tasks[ti])
                wi, st, d, bk = where.pop(ti)
                if bk is not None:
                    batches[(wi, bk)].discard(ti)
            for (pi, wi) in list(loaded):
                pool.evict_profile(profiles[pi], pool.workers[wi].id)
                loaded.pop((pi, wi))
            invariants("after removing everything")
        except Exception as e:  # noqa
            V.vio("exception", f"final cleanup: {type(e).__name__}: {e}",
                  {"op": "cleanup", "exc": type(e).__name__,
                   "after_copy": any(o[0] == "copy" for o in case["ops"]), "batch": bool(batches)})
    return _result(case, V, n_ok)


# ---------------------------------------------------------------- engine glue
def run(prop, seed, stream):
    case = gen_history(seed)
    r = run_history(case)
    r["sample"] = {"mode": case["mode"], "vecs": case["vecs"], "ops": case["ops"][:10]}
    return r


def case(prop, seed, stream):
    return gen_history(seed)


def run_case(prop, c):
    return run_history(c)


def shrink_ops(prop, c, v):
    from . import lib16

    return lib16.shrink_ops(prop, c, v, runner_fn=run_history)
