"""Static text for MANIFEST.json (see gen_manifest.py)."""
CLAIMED = ["C01", "C02", "C03", "C05", "C06", "C07", "C08", "C13", "C18"]

NOTES = ("All checks are seeded searches (VERIF_SEED) over generated worlds executed end-to-end by the "
         "unmodified simulator under monitors; see DESIGN.md. Exit 0 = held (KNOWN-FINDING lines allowed), "
         "1 = VIOLATION with a replay verified in a fresh interpreter, 2 = harness error.")

NOT_APPLICABLE = [
    {"property_id": "C17", "reason": "pure functions of a static DAG (topological order, longest path, reachability, traversals): no schedule, clock, fault or interleaving can change their result, so deterministic simulation adds nothing; deciding it is plain input enumeration (a different technique)"},
    {"property_id": "C20", "reason": "compiler-correctness property of the C++ STRL back-end, a pure function of its input; in addition the back-end cannot be built in this sandbox (empty pybind11/tbb submodules, no Gurobi C++ headers)"},
]

_G = "DESIGN.md section 4"

_NOTE = ("Trusted base: the harness (world generator, monitors, reference ledger/parent map taken from "
         "the world spec, shrinker) and CPython. Sampling, not proof: a clean batch bounds nothing outside "
         "the worlds that were run. Worlds are small (<=3 pools x <=3 workers, <=8 nodes per graph, <=6 "
         "invocations); preemptive runs are not generated.")


def _t(level, technique, ref="DESIGN.md section 4", note=_NOTE):
    return {"level": level, "technique": technique, "ref": ref, "note": note}


TEXT = {
    "C01": _t("Seeded exploration: thousands of generated clusters/workloads are executed end-to-end by the "
              "unmodified Simulator (EDF/FIFO/LSF and the contract-abiding ChaosPolicy); at every event boundary "
              "an integer shadow ledger driven by the observed Worker.place_task/remove_task/load/evict calls is "
              "compared with each worker's capacity and with the worker's own getters. Right level because "
              "oversubscription only shows at particular instants of particular runs.",
              "deterministic simulation: shadow-ledger invariant at every event boundary, chaos placements, runtime overrun"),
    "C02": _t("Seeded exploration of whole runs; every observed Task.start is checked against the task's release "
              "and the completion of its predecessors taken from the world spec (join: one completed branch), "
              "at-most-once start/finish, and the same facts are re-derived from the CSV rows.",
              "deterministic simulation: online start/finish monitor + trace re-derivation, plan-ahead chaos decisions, runtime overrun"),
    "C03": _t("Seeded exploration with tie-heavy worlds; monitors check monotone clock, event time order, "
              "finish = start + runtime (variance: within the documented rounded interval), resources held until "
              "the finish, start >= chosen time, and start exactly at the chosen time when the shadow state says "
              "predecessors are done and the pool can hold the strategy.",
              "deterministic simulation: clock/runtime/start-time invariants over same-microsecond event interleavings"),
    "C05": _t("Seeded exploration under the bundled policies with a step-based watchdog (livelock / Zeno "
              "detection without wall clocks) and post-run liveness oracles: SIMULATOR_END exists and is not "
              "after the timeout, no crash, feasible worlds under EDF/FIFO/LSF complete every task before a "
              "(checked) generous timeout, never an end while runnable work remains.",
              "deterministic simulation: step watchdog + bounded-liveness oracle, zero-length tasks, overrun, timeout cuts"),
    "C06": _t("Seeded exploration; every task state change (through the lifecycle API or directly) is checked "
              "against the legal state machine, and after the run cancellation is checked to be closed downstream "
              "(dead descendants never started and are CANCELLED with a row) and graph completion reported exactly "
              "when all sinks completed.",
              "deterministic simulation: state-machine monitor + downstream-closure oracle, chaos cancels/retractions, deadline enforcement, drop-skipped"),
    "C07": _t("Seeded exploration of graphs with (nested) conditional/terminal pairs; per completed conditional: "
              "exactly one child released, never a zero-probability one, untaken branches cancelled and never "
              "started up to the matching terminal, the join runs once after the taken branch.",
              "deterministic simulation: post-run branch oracle over many random draws"),
    "C08": _t("Seeded exploration; the CSV rows and the SIMULATOR_END counters are compared with the monitors' own "
              "record of what happened (times, deadlines, pools, resources, scheduler counts), then the same rows "
              "are fed to the project's CSVReader whose reconstruction must match; timeout cuts act as crash points.",
              "deterministic simulation: trace-vs-ground-truth oracle + project CSVReader on every trace"),
    "C13": _t("Seeded exploration of EDF/FIFO/LSF runs on single-worker pools; at each real invocation a "
              "first-principles ledger replays the placed tasks of higher-or-equal priority and requires that an "
              "unplaced task fits nowhere.",
              "deterministic simulation: per-invocation priority oracle on states reached by real runs"),
    "C18": _t("Seeded exploration; every real Workload.get_schedulable_tasks call and every task-completion "
              "notification in a run is compared with a reference frontier built from the shadow task states and "
              "the spec's parent map.",
              "deterministic simulation: per-call frontier oracle + completion-release oracle"),
}

