"""Static text for MANIFEST.json (see gen_manifest.py)."""
CLAIMED = []

NOTES = ("All checks are seeded searches (VERIF_SEED) over generated worlds executed end-to-end by the "
         "unmodified simulator under monitors; see DESIGN.md. Exit 0 = held (KNOWN-FINDING lines allowed), "
         "1 = VIOLATION with a replay verified in a fresh interpreter, 2 = harness error.")

NOT_APPLICABLE = [
    {"property_id": "C17", "reason": "pure functions of a static DAG (topological order, longest path, reachability, traversals): no schedule, clock, fault or interleaving can change their result, so deterministic simulation adds nothing; deciding it is plain input enumeration (a different technique)"},
    {"property_id": "C20", "reason": "compiler-correctness property of the C++ STRL back-end, a pure function of its input; in addition the back-end cannot be built in this sandbox (empty pybind11/tbb submodules, no Gurobi C++ headers)"},
]

_G = "DESIGN.md section 4"
TEXT = {}
