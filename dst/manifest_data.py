"""Static text for MANIFEST.json (see gen_manifest.py)."""
CLAIMED = ["C01", "C02", "C03", "C04", "C05", "C06", "C07", "C08", "C09", "C10", "C11", "C12", "C13", "C14", "C15", "C16", "C18", "C19"]

NOTES = ("All checks are seeded searches (VERIF_SEED) over generated worlds executed end-to-end by the "
         "unmodified simulator under monitors; see DESIGN.md. Exit 0 = held (KNOWN-FINDING lines allowed), "
         "1 = VIOLATION with a replay verified in a fresh interpreter, 2 = harness error.")

NOT_APPLICABLE = [
    {"property_id": "C17", "reason": "pure functions of a static DAG (topological order, longest path, reachability, traversals): no schedule, clock, fault or interleaving can change their result, so deterministic simulation adds nothing; deciding it is plain input enumeration (a different technique)"},
    {"property_id": "C20", "reason": "compiler-correctness property of the C++ STRL back-end, a pure function of its input; in addition the back-end cannot be built in this sandbox (empty pybind11/tbb submodules, no Gurobi C++ headers)"},
]

_G = "DESIGN.md section 4"

_NOTE = ("Trusted base: the harness (world generator, monitors, reference ledger/parent map taken from "
         "the world spec, shrinker) and CPython. Sampling, not proof: a clean batch bounds nothing outside "
         "the worlds that were run. Worlds are small (<=3 pools x <=3 workers, <=8 nodes per graph, <=6 "
         "invocations); preemptive runs are not generated. A share of the runs receives its workload in windows from a "
         "cumulative loader (late delivery, fault kind F4).")


def _t(level, technique, ref="DESIGN.md section 4", note=_NOTE):
    return {"level": level, "technique": technique, "ref": ref, "note": note}


TEXT = {
    "C01": _t("Seeded exploration: thousands of generated clusters/workloads are executed end-to-end by the "
              "unmodified Simulator (EDF/FIFO/LSF and the contract-abiding ChaosPolicy); at every event boundary "
              "an integer shadow ledger driven by the observed Worker.place_task/remove_task/load/evict calls (capacities taken from the world spec) is "
              "compared with each worker's capacity and with the worker's own getters. Right level because "
              "oversubscription only shows at particular instants of particular runs. ChaosPolicy also issues batched "
              "placements (BatchStrategy objects joined late and re-used after the batch drained).",
              "deterministic simulation: shadow-ledger invariant at every event boundary, chaos placements, runtime overrun"),
    "C02": _t("Seeded exploration of whole runs; every observed Task.start is checked against the task's release "
              "and the completion of its predecessors taken from the world spec (join: one completed branch), "
              "at-most-once start/finish, and the same facts are re-derived from the CSV rows. Includes conditionals "
              "whose branch head has an ordinary side-input predecessor.",
              "deterministic simulation: online start/finish monitor + trace re-derivation, plan-ahead chaos decisions, runtime overrun"),
    "C03": _t("Seeded exploration with tie-heavy worlds; monitors check monotone clock, event time order, "
              "finish = start + runtime (variance: within the documented rounded interval), resources held until "
              "the finish, start >= chosen time, and start exactly at the chosen time when the shadow state says "
              "predecessors are done and the pool can hold the strategy, also when the only obstacles are tasks whose "
              "TASK_FINISHED is due at the same instant.",
              "deterministic simulation: clock/runtime/start-time invariants over same-microsecond event interleavings"),
    "C05": _t("Seeded exploration under the bundled policies with a step-based watchdog (livelock / Zeno "
              "detection without wall clocks) and post-run liveness oracles: SIMULATOR_END exists and is not "
              "after the timeout, no crash, feasible worlds under EDF/FIFO/LSF complete every task before a "
              "(checked) generous timeout, never an end while runnable work remains.",
              "deterministic simulation: step watchdog + bounded-liveness oracle, zero-length tasks, overrun, timeout cuts, workload delivered in windows"),
    "C06": _t("Seeded exploration; every task state change (through the lifecycle API or directly) is checked "
              "against the legal state machine, and after the run cancellation is checked to be closed downstream "
              "(dead descendants never started and are CANCELLED with a row) and graph completion reported exactly "
              "when all sinks completed.",
              "deterministic simulation: state-machine monitor + downstream-closure oracle, chaos cancels/retractions, deadline enforcement, drop-skipped"),
    "C07": _t("Seeded exploration of graphs with (nested) conditional/terminal pairs; per completed conditional: "
              "exactly one child released (or deferred behind an unfinished side input), never a zero-probability one, untaken branches cancelled and never "
              "started up to the matching terminal, the join runs once after the taken branch.",
              "deterministic simulation: post-run branch oracle over many random draws"),
    "C08": _t("Seeded exploration; the CSV rows and the SIMULATOR_END counters are compared with the monitors' own "
              "record of what happened (times, deadlines, pools, resources, scheduler counts), then the same rows "
              "are fed to the project's CSVReader whose reconstruction must match; timeout cuts act as crash points, "
              "sampled and, for small base worlds, enumerated at every microsecond of the base run.",
              "deterministic simulation: trace-vs-ground-truth oracle + project CSVReader on every trace, timeout cuts as crash points, workload delivered in windows"),
    "C04": _t("Seeded operation histories (allocate / allocate_multiple / deallocate / place / place-in-batch / "
              "remove / load / evict / copy / deepcopy, with refused requests injected at arbitrary points) on "
              "Resources, Worker and WorkerPool checked operation by operation against an integer reference ledger, "
              "plus the pool's own ledger == sum of its workers' ledgers, and the in-run clauses (allocated == demand of residents; idle => full capacity) at every event "
              "boundary of simulated runs.",
              "deterministic simulation: reference-model check after every operation of a seeded history with injected refusals; in-run ledger invariant"),
    "C10": _t("Seeded exploration of runs driven by EDF/FIFO/LSF/ILP/TetriSched-Gurobi/TetriSched-CPLEX; every real "
              "schedule() call is wrapped: returns normally, <=1 decision per task, only offered / own scheduled tasks, "
              "every offered unscheduled task answered, existing pool/worker, own strategy, time >= now and release, "
              "joint feasibility on a reference timeline per worker (exact small search when no worker is named), and "
              "an identical deep snapshot of cluster and task state before/after. Clockwork runs included; Z3 is shadow-probed "
              "(invoked on live states of greedy-driven runs, answer checked and discarded).",
              "deterministic simulation: per-invocation contract + reference-timeline oracle on states reached by real runs, solver-choice perturbation, runtime overrun"),
    "C11": _t("Seeded exploration of ILP and TetriSched-Gurobi runs with lookahead / release_taskgraphs; each decision "
              "is checked: a child is placed only with its co-decided parents, not before parent start + chosen "
              "runtime, not before a running/scheduled parent's expected finish. 'Every feasible solution' is sampled "
              "by re-solving the policy's own model under seeded random objectives (fault F6). Z3 through shadow probes.",
              "deterministic simulation: per-invocation precedence oracle over solver-choice perturbation"),
    "C12": _t("Seeded exploration with deadlines generated around the boundary (past / exactly tight / loose): hopeless "
              "tasks are cancelled (EDF, FIFO, TetriSched-CPLEX) or left unplaced (ILP task-by-task, TetriSched-Gurobi) "
              "and never placed; planners never choose start + runtime > deadline, also on the F6 alternative "
              "solutions; Clockwork included; post-run: with exact runtimes every task that started at its planned time "
              "completes by its deadline. TetriSched-CPLEX is also run with its batching option on Clockwork-style request streams.",
              "deterministic simulation: per-invocation admission/deadline oracle over solver-choice perturbation"),
    "C13": _t("Seeded exploration of EDF/FIFO/LSF runs on single-worker pools; at each real invocation a "
              "first-principles ledger replays the placed tasks of higher-or-equal priority and requires that an "
              "unplaced task fits nowhere. The preemptive mode of EDF/LSF (partially executed tasks, where remaining time "
              "differs from the runtime) is shadow-probed on live states.",
              "deterministic simulation: per-invocation priority oracle on states reached by real runs"),
    "C14": _t("Modest: on tiny instances reached inside real runs (<=4 offered tasks, <=2 workers) each unplaced "
              "offered task of a TetriSched plan is tested against every (slot, worker, strategy) of the planner's own "
              "published decision space (maximality); for the ILP goodput goal an independent transcription of the ILP's "
              "decision space is searched exhaustively (orders x worker/strategy assignments) for a plan rewarding one "
              "more task graph than the returned one.",
              "deterministic simulation: exhaustive tiny reference planner at each invocation of a real run"),
    "C15": _t("Seeded exploration of Clockwork runs (1-3 models with several batch-size strategies, pre-loaded or "
              "loaded by the policy, fixed/poisson/gamma/closed-loop request arrival, SLOs around the boundary, both "
              "goals); every schedule() return is grouped by BatchStrategy and checked (one model, size == batch size, "
              "model loaded on the live worker -- also by an independent ledger of observed loads plus the declared loading time, and not evicted by the same answer --, worker can hold it, now + runtime <= earliest deadline), each request "
              "placed at most once over the run, hopeless requests cancelled not placed.",
              "deterministic simulation: per-invocation batch oracle + whole-run at-most-once over stateful request queues"),
    "C16": _t("Seeded operation histories on EventQueue (add / next / remove / in-place re-timing + reheapify / peek / "
              "next-of-type) against a sorted-list reference with the documented (time, type priority, task name) "
              "order, EventTime algebra sampled along the histories against integer microseconds, and the same "
              "pop-order oracle online in simulated runs. The algebraic 'for all triples' quantifier is sampled, not "
              "enumerated.",
              "deterministic simulation: reference-model check of seeded queue histories + online pop-order monitor"),
    "C18": _t("Seeded exploration; every real Workload.get_schedulable_tasks call and every task-completion "
              "notification in a run is compared with a reference frontier built from the shadow task states and "
              "the spec's parent map.",
              "deterministic simulation: per-call frontier oracle + completion-release oracle + monotonicity probes on live states, workload delivered in windows"),
    "C19": _t("Seeded generation of descriptions rendered as YAML/JSON and loaded by the real loaders, compared "
              "field by field with the spec; release times per policy, fresh isomorphic copies per invocation and "
              "deadline = release + critical-path/SLO base stretched within variance and bounds (base recomputed by "
              "path enumeration). Only the closed-loop clause depends on the run and is checked at every event "
              "boundary of simulated runs under completing and cancelling policies, together with 'all N invocations released' for runs that reach their natural end.",
              "deterministic simulation for the closed-loop clause (in-flight bound at every event boundary under cancelling policies); spec-vs-loaded-object comparison at world construction for the rest"),
    "C09": _t("Seeded generation of workloads using randomness; the untouched `python main.py --random_seed=N` is "
              "run in three fresh interpreters (baseline / other PYTHONHASHSEED / other PYTHONHASHSEED + skewed wall "
              "clock) and the CSV traces must be identical after masking the measured scheduler durations.",
              "deterministic simulation across processes: hash-seed and wall-clock perturbation (F8) of real CLI runs, row-by-row trace diff"),
}
