"""Batch execution of seeded runs on a process pool, violation triage (known findings,
minimisation, replay verification), evidence files and exit codes."""
import concurrent.futures as cf
import faulthandler
import hashlib
import json
import multiprocessing as mp
import os
import signal
import subprocess
import sys
import time

from . import env

OUT = os.path.join(env.VERIF, "out")
REPLAYS = os.path.join(OUT, "replays")
EVIDENCE = os.path.join(env.VERIF, "evidence")
if os.path.realpath(env.REPO) != "/repo":
    # a run against a scratch copy (sensitivity self-test, seeded changes) must not overwrite the evidence
    # of the real tree
    EVIDENCE = os.path.join(env.VERIF, "out", "evidence-scratch")
KNOWN = os.path.join(env.VERIF, "known_findings.json")

REAL = ["simulator.Simulator/EventQueue", "workload.Task/TaskGraph/Workload/JobGraph",
        "workers.Worker/WorkerPool/WorkerPools", "workload.Resources/ExecutionStrategy",
        "bundled scheduling policies (unmodified)"]
STUB = ["quiet loggers + in-memory CSV handler (utils.setup_logging seam)",
        "FakeWallClock behind schedulers.*.time", "StaticLoader (BaseWorkloadLoader subclass)",
        "cumulative windowed loader modelled on the bundled AlibabaLoader (fault kind F4) in worlds with loader.kind=batch",
        "harness ChaosPolicy (BaseScheduler subclass) in chaos profile only"]


def derive_seed(base, prop, i):
    h = hashlib.sha256(f"{base}:{prop}:{i}".encode()).digest()
    return int.from_bytes(h[:4], "big") & 0x7FFFFFFF


def load_known():
    try:
        with open(KNOWN) as f:
            return json.load(f)
    except FileNotFoundError:
        return {"findings": [], "fixed": []}


def match_known(v, known):
    for k in known.get("findings", []):
        if k["property"] != v["property"] or k["oracle"] != v["oracle"]:
            continue
        fp = k.get("fingerprint", {})
        if all(v.get("cause", {}).get(a) == b for a, b in fp.items()):
            return k
    return None


class RunTimeout(BaseException):
    pass


def _alarm(signum, frame):
    raise RunTimeout()


def _init_worker():
    signal.signal(signal.SIGALRM, _alarm)
    faulthandler.enable()


def run_chunk(args):
    """executed in a worker process: returns compact per-run results"""
    prop, jobs, per_run_timeout = args
    from . import props

    spec = props.PROPS[prop]
    out = []
    for (i, seed, stream) in jobs:
        faulthandler.dump_traceback_later(per_run_timeout * 4, exit=True)
        signal.alarm(per_run_timeout)
        t0 = time.time()
        try:
            r = spec["run"](prop, seed, stream)
        except RunTimeout:
            r = {"seed": seed, "outcome": "timeout", "violations": [], "probes": {}, "faults": {},
                 "stats": {}, "fingerprint": None}
        except BaseException as e:  # harness failure
            import traceback

            r = {"seed": seed, "outcome": "harness_error", "violations": [], "probes": {}, "faults": {},
                 "stats": {}, "fingerprint": None,
                 "error": "".join(traceback.format_exception(type(e), e, e.__traceback__))[-2000:]}
        finally:
            signal.alarm(0)
            faulthandler.cancel_dump_traceback_later()
        r["i"] = i
        r["stream"] = stream
        r["wall"] = time.time() - t0
        r["violations"] = [v for v in r.get("violations", []) if v["property"] == prop]
        r.pop("rows", None)
        if i >= 3:
            r.pop("trace_tail", None)
            r.pop("sample", None)
        out.append(r)
    return out


def run_batch(prop, tier, base_seed, n_runs, jobs_n, per_run_timeout=60, wall_budget=None):
    from . import props

    spec = props.PROPS[prop]
    streams = spec["streams"]
    jobs = []
    for i in range(n_runs):
        seed = derive_seed(base_seed, prop, i)
        stream = streams[i % len(streams)] if isinstance(streams, list) else streams
        jobs.append((i, seed, stream))
    chunk = max(1, min(40, n_runs // (jobs_n * 4) or 1))
    chunks = [jobs[k:k + chunk] for k in range(0, len(jobs), chunk)]
    results = []
    lost = 0
    t0 = time.time()
    ctx = mp.get_context("fork")
    # a worker that dies (faulthandler's hard exit on a run that ignores the alarm, OOM kill) breaks the whole
    # pool.  The jobs that had not finished are then re-run one by one in small waves in fresh pools; a job
    # that is in flight in two broken waves is given up, so a single bad run costs a handful of runs, not
    # the rest of the batch.
    deadline = None if wall_budget is None else t0 + wall_budget

    def run_wave(items):
        """items: list of (chunk, strikes); returns unfinished items; extends results"""
        nonlocal lost
        unfinished = []
        with cf.ProcessPoolExecutor(max_workers=jobs_n, mp_context=ctx, initializer=_init_worker) as ex:
            futs = {ex.submit(run_chunk, (prop, c, per_run_timeout)): (c, n) for c, n in items}
            try:
                left = None if deadline is None else max(1.0, deadline - time.time())
                for f in cf.as_completed(futs, timeout=left):
                    c, n = futs[f]
                    try:
                        results.extend(f.result())
                    except Exception:
                        unfinished.append((c, n))
            except cf.TimeoutError:
                for f, (c, n) in futs.items():
                    if not f.done():
                        lost += len(c)
                        f.cancel()
                for p in list(getattr(ex, "_processes", {}).values()):
                    try:
                        os.kill(p.pid, signal.SIGKILL)
                    except Exception:
                        pass
                return []
        return unfinished

    unfinished = run_wave([(c, 0) for c in chunks])
    singles = [([j], 0) for c, _ in unfinished for j in c]
    singles.sort(key=lambda it: it[0][0][0])
    wave = max(2, jobs_n * 2)
    restarts = 0
    while singles and restarts < 400:
        head, singles = singles[:wave], singles[wave:]
        back = run_wave(head)
        if back:
            restarts += 1
            again = []
            for c, n in back:
                if n + 1 >= 2:
                    lost += 1
                else:
                    again.append((c, n + 1))
            singles = again + singles
    lost += sum(len(c) for c, _ in singles)
    results.sort(key=lambda r: r["i"])
    return results, lost, time.time() - t0


def nontrivial_default(r):
    return r.get("stats", {}).get("started", 0) > 0


def summarize(prop, tier, base_seed, results, lost, wall, violations_reported, known_hits, extra=None):
    from . import props

    spec = props.PROPS[prop]
    nt = spec.get("nontrivial", nontrivial_default)
    fps = set()
    probes, faults, outcomes = {}, {}, {}
    inter = set()
    simtime = 0
    invocations = 0
    samples = []
    inconclusive = lost
    refused = 0
    for r in results:
        outcomes[r["outcome"]] = outcomes.get(r["outcome"], 0) + 1
        if r["outcome"] in ("timeout", "step_budget", "env_limit"):
            inconclusive += 1
        if r["outcome"] == "build_error":
            refused += 1
        for k, v in r.get("probes", {}).items():
            probes[k] = probes.get(k, 0) + v
        for k, v in r.get("faults", {}).items():
            faults[k] = faults.get(k, 0) + v
        st = r.get("stats", {})
        simtime += st.get("sim_time_us", 0) or 0
        invocations += st.get("invocations", 0) or 0
        for x in st.get("interleavings", []):
            inter.add(x)
        try:
            if nt(r) and r.get("fingerprint"):
                fps.add(r["fingerprint"])
        except Exception:
            pass
        if len(samples) < 3 and r.get("sample") is not None:
            samples.append({"seed": r["seed"], "stream": r["stream"], "case": r["sample"],
                            "outcome": r["outcome"], "trace_tail": r.get("trace_tail", [])[-12:]})
    if not samples:
        for r in results[:2]:
            samples.append({"seed": r["seed"], "stream": r["stream"], "outcome": r["outcome"],
                            "stats": r.get("stats", {})})
    ev = {
        "property_id": prop, "tier": tier, "seed": base_seed, "level": "exploration",
        "coverage": {
            "evaluations": len(results),
            "distinct_nontrivial": len(fps),
            "rule": spec["rule"],
            "samples": samples,
            "runs_per_hour": int(len(results) / wall * 3600) if wall > 0 else 0,
            "seeds": {"base": base_seed, "derivation": "sha256(base:property:i)[:4] & 0x7fffffff",
                      "first": [r["seed"] for r in results[:5]]},
            "simulated_time_us": simtime,
            "fault_counts": faults,
            "probe_counts": probes,
            "distinct_interleavings": len(inter),
            "interleaving_measure": "distinct sequences of event types handled at one microsecond",
            "invocations_checked": invocations,
            "outcomes": outcomes,
            "inconclusive": inconclusive,
            "refused_config": refused,
            "real_components": REAL + spec.get("real", []),
            "stub_components": STUB + spec.get("stub", []),
            "known_findings_hit": known_hits,
            "repo_head": env.repo_head(),
        },
        "assumptions": spec.get("assumptions", []),
        "wall_s": round(wall, 2),
        "violations": violations_reported,
    }
    if extra:
        ev["coverage"].update(extra)
    os.makedirs(EVIDENCE, exist_ok=True)
    with open(os.path.join(EVIDENCE, f"{prop}.json"), "w") as f:
        json.dump(ev, f, indent=1, sort_keys=True, default=str)
    return ev


def replay_in_fresh_interpreter(prop, path, timeout=180):
    cmd = [sys.executable, os.path.join(env.VERIF, "check"), prop, "--replay", path, "--quiet"]
    e = dict(os.environ)
    e["PYTHONHASHSEED"] = "0"
    try:
        p = subprocess.run(cmd, capture_output=True, text=True, timeout=timeout, env=e, cwd=env.VERIF)
    except subprocess.TimeoutExpired:
        return False
    return p.returncode == 1 and "VIOLATION" in p.stdout


def check_property(prop, tier, base_seed, n_runs=None, jobs_n=None, do_shrink=True):
    from . import props

    spec = props.PROPS[prop]
    if n_runs is None:
        n_runs = spec["runs"][tier]
    jobs_n = jobs_n or min(16, os.cpu_count() or 4)
    known = load_known()
    t0 = time.time()
    results, lost, wall = run_batch(prop, tier, base_seed, n_runs, jobs_n,
                                    per_run_timeout=spec.get("per_run_timeout", 60),
                                    wall_budget=spec.get("wall_budget", {}).get(tier))
    harness = [r for r in results if r["outcome"] == "harness_error"]
    # triage
    known_hits = {}
    unknown = {}
    for r in results:
        for v in r["violations"]:
            k = match_known(v, known)
            if k is not None:
                kh = known_hits.setdefault(k["id"], {"count": 0, "what": k["what"], "first_seed": r["seed"]})
                kh["count"] += 1
            else:
                sig = (v["oracle"], json.dumps(v.get("cause", {}), sort_keys=True))
                unknown.setdefault(sig, []).append((r, v))
    reported = 0
    lines = []
    os.makedirs(REPLAYS, exist_ok=True)
    unreplayable = 0
    for sig, items in list(unknown.items())[:3]:
        r, v = items[0]
        path = make_replay(prop, spec, r, v, known, do_shrink and len(lines) < 2)
        ok = replay_in_fresh_interpreter(prop, path)
        if not ok:
            # fall back to the unminimised original
            path2 = make_replay(prop, spec, r, v, known, False, suffix="-orig")
            ok = replay_in_fresh_interpreter(prop, path2)
            if ok:
                path = path2
        if ok:
            reported += 1
            lines.append(f"VIOLATION property={prop} replay={path}")
            print(f"VIOLATION property={prop} replay={path}")
            print(f"  oracle={v['oracle']} seed={r['seed']} occurrences={len(items)} detail={v['detail'][:300]}")
        else:
            unreplayable += 1
            print(f"UNREPLAYABLE property={prop} oracle={v['oracle']} seed={r['seed']} detail={v['detail'][:200]}")
    for sig, items in list(unknown.items())[3:]:
        r, v = items[0]
        print(f"  (further unlisted violation not minimised) oracle={v['oracle']} seed={r['seed']} "
              f"occurrences={len(items)} detail={v['detail'][:200]}")
    for kid, kh in sorted(known_hits.items()):
        print(f"KNOWN-FINDING: property={prop} {kid}: {kh['what']} (hit {kh['count']}x, e.g. seed {kh['first_seed']})")
    extra = {"unreplayable": unreplayable}
    ev = summarize(prop, tier, base_seed, results, lost, wall, reported, known_hits, extra)
    cov = ev["coverage"]
    print(f"[{prop}] tier={tier} seed={base_seed} runs={len(results)} lost={lost} wall={wall:.1f}s "
          f"distinct_nontrivial={cov['distinct_nontrivial']} outcomes={cov['outcomes']} "
          f"violations={reported} known={sum(k['count'] for k in known_hits.values())}")
    if reported:
        return 1
    if harness:
        print(f"HARNESS-ERROR in {len(harness)} runs, first: seed={harness[0]['seed']}\n{harness[0].get('error', '')[-1500:]}")
        return 2
    if unreplayable:
        return 2
    total = len(results) + lost
    if total == 0 or (cov["inconclusive"] / max(total, 1)) > 0.2:
        print(f"TOO-MANY-INCONCLUSIVE {cov['inconclusive']}/{total}")
        return 2
    return 0


def make_replay(prop, spec, r, v, known, do_shrink, suffix=""):
    case = spec["case"](prop, r["seed"], r["stream"])
    steps, runs = [], 0
    if do_shrink and spec.get("shrink"):
        case, runs, steps = spec["shrink"](prop, case, v)
    # final run to record the violation as reproduced from the explicit case
    rr = spec["run_case"](prop, case)
    vv = [x for x in rr.get("violations", []) if x["property"] == prop and x["oracle"] == v["oracle"]]
    doc = {"property": prop, "oracle": v["oracle"], "signature": [prop, v["oracle"]],
           "cause": v.get("cause", {}), "seed": r["seed"], "stream": r["stream"],
           "detail": (vv[0]["detail"] if vv else v["detail"]),
           "case": case, "shrink_steps": steps, "shrink_runs": runs,
           "trace_tail": rr.get("trace_tail", [])[-50:], "repo_head": env.repo_head()}
    h = hashlib.md5(json.dumps(case, sort_keys=True, default=str).encode()).hexdigest()[:8]
    path = os.path.join(REPLAYS, f"{prop}-{r['seed']}-{h}{suffix}.json")
    with open(path, "w") as f:
        json.dump(doc, f, indent=1, default=str)
    return path


def replay(prop, path, quiet=False):
    from . import props

    spec = props.PROPS[prop]
    with open(path) as f:
        doc = json.load(f)
    rr = spec["run_case"](prop, doc["case"])
    vs = [x for x in rr.get("violations", []) if x["property"] == prop and x["oracle"] == doc["oracle"]]
    if vs:
        print(f"VIOLATION property={prop} replay={path}")
        if not quiet:
            print(f"  oracle={vs[0]['oracle']} detail={vs[0]['detail']}")
            for h in rr.get("trace_tail", [])[-25:]:
                print("   ", h)
        return 1
    print(f"replay of {path}: violation {doc['oracle']} did not reproduce (outcome {rr.get('outcome')}, "
          f"other violations: {[(x['property'], x['oracle']) for x in rr.get('violations', [])]})")
    return 0
