"""C08: the CSV trace and the end-of-run counters against the monitors' ground truth,
and the project's own CSVReader on the same rows."""
from .monitor import _us


def _resources_by_type(fields):
    out = {}
    ids = []
    for i in range(0, len(fields) - 2, 3):
        name, rid, q = fields[i], fields[i + 1], fields[i + 2]
        out[name] = out.get(name, 0) + int(float(q))
        ids.append((name, rid))
    return out, ids


def post_c08(ctx, parsed, rows, res):
    world = ctx.world
    by_id = {}
    for s in ctx.shadows.values():
        by_id[s.task.id] = s
    end = [r for r in parsed if len(r) > 1 and r[1] == "SIMULATOR_END"]
    if len(end) != 1:
        return
    end = end[0]
    end_t = int(end[0])
    # ---------------------------------------------------------------- summary row
    finished = [s for s in ctx.shadows.values() if s.finishes > 0]
    cancelled = [s for s in ctx.shadows.values() if s.state == "CANCELLED"]
    missed = [s for s in finished if s.finish_time > _us(s.task.deadline)]
    graphs = {}
    for s in ctx.shadows.values():
        graphs.setdefault(s.graph, {})[s.node] = s
    fin_graphs, can_graphs, miss_graphs = [], [], []
    for graph, bynode in graphs.items():
        base = graph.split("@")[0]
        if base not in ctx.nodes:
            continue
        sinks = [n for n, nd in ctx.nodes[base].items() if not nd["children"]]
        if all(n in bynode and bynode[n].state == "COMPLETED" for n in sinks):
            fin_graphs.append(graph)
            done_at = max(bynode[n].finish_time for n in sinks)
            gdl = max(_us(s.task.deadline) for s in bynode.values())
            if done_at > gdl:
                miss_graphs.append(graph)
        if any(n in bynode and bynode[n].state == "CANCELLED" for n in sinks):
            can_graphs.append(graph)
    truth = [len(finished), len(cancelled), len(missed), len(fin_graphs), len(can_graphs), len(miss_graphs)]
    got = [int(x) for x in end[2:8]]
    names = ["finished_tasks", "cancelled_tasks", "missed_task_deadlines", "finished_task_graphs",
             "cancelled_task_graphs", "missed_task_graph_deadlines"]
    for n, g, t in zip(names, got, truth):
        if g != t:
            ctx.violate("C08", "summary_" + n, f"SIMULATOR_END reports {n}={g}, the run had {t}",
                        {"field": n, "reported_more": g > t})
    # ---------------------------------------------------------------- per-task rows
    seen = {"TASK_RELEASE": {}, "TASK_PLACEMENT": {}, "TASK_FINISHED": {}, "TASK_CANCEL": {},
            "MISSED_DEADLINE": {}}
    sched_rows = []
    for r in parsed:
        if len(r) < 2:
            continue
        k = r[1]
        t = int(r[0]) if r[0].lstrip("-").isdigit() else None
        if k == "TASK_RELEASE":
            s = by_id.get(r[7])
            if s is None:
                ctx.violate("C08", "row_unknown_task", f"TASK_RELEASE for unknown id {r[7]}", {})
                continue
            seen[k].setdefault(r[7], []).append(r)
            rel = s.first_release if len(seen[k][r[7]]) == 1 else s.release_time
            if t != rel or int(r[5]) != rel:
                ctx.violate("C08", "release_row_time",
                            f"TASK_RELEASE {s.uname}: row time {t}, release field {r[5]}, task released at {rel}",
                            {})
            if int(r[6]) != s.deadline and int(r[6]) != _us(s.task.deadline):
                ctx.violate("C08", "release_row_deadline",
                            f"TASK_RELEASE {s.uname}: deadline field {r[6]}, task deadline {_us(s.task.deadline)}",
                            {})
            if r[2] != s.node or r[8] != s.graph:
                ctx.violate("C08", "release_row_identity", f"TASK_RELEASE row {r[2]}@{r[8]} for {s.uname}", {})
            node = ctx.nodes.get(s.base, {}).get(s.node)
            if node is not None:
                prof = world["profiles"][node["profile"]]
                slow = max(st["runtime"] for st in prof["strategies"])
                if int(r[9]) != slow:
                    ctx.violate("C08", "release_row_runtime",
                                f"TASK_RELEASE {s.uname}: slowest runtime field {r[9]}, spec {slow}", {})
        elif k == "TASK_PLACEMENT":
            s = by_id.get(r[5])
            if s is None:
                ctx.violate("C08", "row_unknown_task", f"TASK_PLACEMENT for unknown id {r[5]}", {})
                continue
            seen[k].setdefault(r[5], []).append(r)
            if t != s.start_time:
                ctx.violate("C08", "placement_row_time",
                            f"TASK_PLACEMENT {s.uname}: row time {t}, task started at {s.start_time}", {})
            if s.runtime is not None and int(r[7]) != s.runtime:
                ctx.violate("C08", "placement_row_runtime",
                            f"TASK_PLACEMENT {s.uname}: runtime field {r[7]}, strategy runtime {s.runtime}", {})
            pool = None
            for p in ctx.built.worker_pools.worker_pools:
                if p.id == r[6]:
                    pool = p
            if pool is None or pool.name != s.pool:
                ctx.violate("C08", "placement_row_pool",
                            f"TASK_PLACEMENT {s.uname}: pool field {r[6]} is not the pool it ran on ({s.pool})",
                            {})
            if s.strategy is not None:
                want = {}
                for name, rid, q in [(a, b, c) for a, b, c in _dem(s.strategy)]:
                    want[name] = want.get(name, 0) + q
                want = {a: b for a, b in want.items() if b}
                got_res, ids = _resources_by_type(r[8:])
                got_res = {a: b for a, b in got_res.items() if b}
                if got_res != want:
                    ctx.violate("C08", "placement_row_resources",
                                f"TASK_PLACEMENT {s.uname}: resources {got_res}, strategy demands {want}", {})
                else:
                    led = None
                    for L in ctx.ledgers.values():
                        if L.name == s.worker:
                            led = L
                    if led is not None:
                        own = {(n, i) for (_, n, i, _) in led.res_keys}
                        if any(x not in own for x in ids):
                            ctx.violate("C08", "placement_row_foreign_resource",
                                        f"TASK_PLACEMENT {s.uname}: lists resources {ids} not owned by its "
                                        f"worker {s.worker}", {})
        elif k == "TASK_FINISHED":
            s = by_id.get(r[7])
            if s is None:
                ctx.violate("C08", "row_unknown_task", f"TASK_FINISHED for unknown id {r[7]}", {})
                continue
            seen[k].setdefault(r[7], []).append(r)
            if t != s.finish_time or int(r[5]) != s.finish_time:
                ctx.violate("C08", "finish_row_time",
                            f"TASK_FINISHED {s.uname}: row time {t}, completion field {r[5]}, finished at "
                            f"{s.finish_time}", {})
            if int(r[6]) != _us(s.task.deadline):
                ctx.violate("C08", "finish_row_deadline",
                            f"TASK_FINISHED {s.uname}: deadline field {r[6]}, task deadline "
                            f"{_us(s.task.deadline)}", {})
        elif k == "TASK_CANCEL":
            s = by_id.get(r[4])
            if s is None:
                ctx.violate("C08", "row_unknown_task", f"TASK_CANCEL for unknown id {r[4]}", {})
                continue
            seen[k].setdefault(r[4], []).append(r)
            if s.state != "CANCELLED":
                ctx.violate("C08", "cancel_row_for_live_task", f"TASK_CANCEL row for {s.uname} in state "
                            f"{s.state}", {})
            elif s.cancel_time is not None and t != s.cancel_time:
                ctx.violate("C08", "cancel_row_time", f"TASK_CANCEL {s.uname}: row time {t}, cancelled at "
                            f"{s.cancel_time}", {})
        elif k == "MISSED_DEADLINE":
            s = by_id.get(r[5])
            if s is None:
                continue
            seen[k].setdefault(r[5], []).append(r)
            if not (s.finishes and s.finish_time > _us(s.task.deadline)):
                ctx.violate("C08", "spurious_deadline_miss",
                            f"MISSED_DEADLINE {s.uname}: finished {s.finish_time}, deadline {_us(s.task.deadline)}",
                            {})
        elif k in ("SCHEDULER_START", "SCHEDULER_FINISHED"):
            sched_rows.append(r)
    for s in ctx.shadows.values():
        tid = s.task.id
        if s.released_obs and len(seen["TASK_RELEASE"].get(tid, [])) != s.released_obs:
            ctx.violate("C08", "release_row_count",
                        f"{s.uname}: released {s.released_obs}x, {len(seen['TASK_RELEASE'].get(tid, []))} rows", {})
        if s.starts and len(seen["TASK_PLACEMENT"].get(tid, [])) != s.starts:
            ctx.violate("C08", "placement_row_count",
                        f"{s.uname}: started {s.starts}x, {len(seen['TASK_PLACEMENT'].get(tid, []))} rows", {})
        if s.finishes and len(seen["TASK_FINISHED"].get(tid, [])) != s.finishes:
            ctx.violate("C08", "finish_row_count",
                        f"{s.uname}: finished {s.finishes}x, {len(seen['TASK_FINISHED'].get(tid, []))} rows", {})
        if s.finishes and s.finish_time > _us(s.task.deadline) and tid not in seen["MISSED_DEADLINE"]:
            ctx.violate("C08", "deadline_miss_not_reported",
                        f"{s.uname}: finished {s.finish_time} > deadline {_us(s.task.deadline)}, no "
                        f"MISSED_DEADLINE row", {})
    # ---------------------------------------------------------------- scheduler rows
    inv = list(ctx.invocations)
    pol_ = ctx.world["policy"]
    offer_is_deterministic = (not any(n.get("conditional") for g in ctx.world["graphs"] for n in g["nodes"])) or \
        (pol_["name"] == "ILP" and pol_.get("branch_policy", "worst") != "random")  # only ILP takes a policy
    starts = [r for r in sched_rows if r[1] == "SCHEDULER_START"]
    fins = [r for r in sched_rows if r[1] == "SCHEDULER_FINISHED"]
    for i, r in enumerate(fins):
        if i >= len(inv):
            break
        rec = inv[i]
        if int(r[3]) != rec["n_place"]:
            ctx.violate("C08", "scheduler_row_placed",
                        f"SCHEDULER_FINISHED at {r[0]}: placed field {r[3]}, policy placed {rec['n_place']}", {})
        if int(r[4]) != rec["n_unplaced"]:
            ctx.violate("C08", "scheduler_row_unplaced",
                        f"SCHEDULER_FINISHED at {r[0]}: unplaced field {r[4]}, policy left "
                        f"{rec['n_unplaced']} offered tasks unplaced", {"reported": int(r[4])})
        if int(r[2]) != rec["runtime"]:
            ctx.violate("C08", "scheduler_row_runtime",
                        f"SCHEDULER_FINISHED at {r[0]}: runtime field {r[2]}, policy reported {rec['runtime']}",
                        {})
    for i, r in enumerate(starts):
        if i >= len(inv):
            break
        rec = inv[i]
        if int(r[0]) != rec["t"]:
            ctx.violate("C08", "scheduler_row_time", f"SCHEDULER_START row at {r[0]}, policy invoked at "
                        f"{rec['t']}", {})
        # the number of tasks offered: what the policy itself obtained from the frontier inside this invocation
        # (same state, same options).  Only comparable when the offer is a function of the state: a RANDOM branch
        # prediction draws afresh for every query of a graph with an unresolved conditional.
        if rec.get("offered") is not None and rec["policy"] not in ("Chaos", "WC") and offer_is_deterministic \
                and int(r[2]) != rec["offered"]:
            ctx.violate("C08", "scheduler_row_offered",
                        f"SCHEDULER_START at {r[0]}: offered field {r[2]}, the policy was offered "
                        f"{rec['offered']} tasks", {"row_smaller": int(r[2]) < rec["offered"]})
    # ---------------------------------------------------------------- the project's reader
    reader_check(ctx, parsed, graphs, fin_graphs)


def _dem(strategy):
    from .monitor import demand_of

    return demand_of(strategy)


def monitor_us(t):
    from .monitor import _us

    return _us(t)


def reader_check(ctx, parsed, graphs, fin_graphs):
    from data import CSVReader

    rd = CSVReader.__new__(CSVReader)
    rd._simulators = {}
    import contextlib
    import io as _io

    try:
        with contextlib.redirect_stdout(_io.StringIO()):
            rd.parse_events({"mem": parsed})
    except Exception as e:  # noqa
        inner = e.__cause__ or e
        msg = f"{type(inner).__name__}: {inner}"
        cause = {"exc": type(inner).__name__}
        world = ctx.world
        cause["closed_loop"] = any(g["release"]["type"] == "closed_loop" for g in world["graphs"])
        cause["conditional"] = any(n.get("conditional") for g in world["graphs"] for n in g["nodes"])
        cause["cancellations"] = any(s.state == "CANCELLED" for s in ctx.shadows.values())
        import traceback

        tb = traceback.extract_tb(inner.__traceback__)
        cause["line"] = tb[-1].line if tb else ""
        # is the reader's disagreement explained by a task graph that has TASK_CANCEL rows
        # (e.g. an untaken conditional branch) but neither finished nor lost a sink?
        unfinished = False
        crows = {r[5] for r in parsed if len(r) > 5 and r[1] == "TASK_CANCEL"}
        for g in crows:
            if g in fin_graphs:
                continue
            bynode = graphs.get(g, {})
            base = g.split("@")[0]
            sinks = [n for n, nd in ctx.nodes.get(base, {}).items() if not nd["children"]]
            if not any(n in bynode and bynode[n].state == "CANCELLED" for n in sinks):
                unfinished = True
        cause["unfinished_graph_with_cancelled_nonsink"] = unfinished
        # ... or by a TASK_CANCEL row written for a leftover non-sink task *after* its graph's
        # TASK_GRAPH_FINISHED row (the reader then marks the finished graph cancelled again)?
        seen_fin = set()
        late_cancel = False
        for r in parsed:
            if len(r) > 2 and r[1] == "TASK_GRAPH_FINISHED":
                seen_fin.add(r[2])
            elif len(r) > 5 and r[1] == "TASK_CANCEL" and r[5] in seen_fin:
                late_cancel = True
        if not unfinished:
            cause["cancel_row_after_graph_finished"] = late_cancel
        for k in ("closed_loop", "conditional", "cancellations"):
            cause.pop(k, None)
        ctx.violate("C08", "reader_rejects_trace", f"CSVReader.parse_events raised {msg[:200]} "
                    f"[{cause['line']}]", cause)
        return
    sim = rd._simulators["mem"]
    ctx.probe("reader_accepted")
    tasks = {t.task_id: t for t in sim.tasks}
    for s in ctx.shadows.values():
        rt = tasks.get(s.task.id)
        if rt is None:
            if s.released_obs or s.state == "CANCELLED":
                ctx.violate("C08", "reader_lost_task", f"reader has no task for {s.uname}", {})
            continue
        if s.starts and rt.placement_time != s.start_time:
            ctx.violate("C08", "reader_placement_time", f"reader: {s.uname} placed at {rt.placement_time}, "
                        f"ran at {s.start_time}", {})
        if s.finishes and rt.completion_time != s.finish_time:
            ctx.violate("C08", "reader_completion_time", f"reader: {s.uname} completed {rt.completion_time}, "
                        f"really {s.finish_time}", {})
        if (s.state == "CANCELLED") != bool(rt.cancelled):
            ctx.violate("C08", "reader_cancel_flag", f"reader: {s.uname} cancelled={rt.cancelled}, state "
                        f"{s.state}", {})
    # what the reader derives from the remaining row types: skips, deadline, miss flag
    skips = {}
    known_to_reader = set()  # the reader creates a task at its TASK_RELEASE row: earlier skips have no task yet
    for r in parsed:
        if len(r) > 7 and r[1] == "TASK_RELEASE":
            known_to_reader.add(r[7])
        if len(r) > 5 and r[1] == "TASK_SKIP":
            if r[5] in known_to_reader:
                skips.setdefault(r[5], []).append(int(r[0]))
            else:
                ctx.probe("reader_skip_before_release_row")
    for s in ctx.shadows.values():
        rt = tasks.get(s.task.id)
        if rt is None:
            continue
        want = skips.get(s.task.id, [])
        if want:
            ctx.probe("reader_task_with_skips")
        if list(getattr(rt, "skipped_times", [])) != want:
            ctx.violate("C08", "reader_skipped_times",
                        f"reader: {s.uname} skipped_times={list(getattr(rt, 'skipped_times', []))[:6]}, the trace has "
                        f"TASK_SKIP rows for it at {want[:6]}", {"reader_has_none": not getattr(rt, "skipped_times", [])})
        dl = monitor_us(s.task.deadline)
        if dl is not None and getattr(rt, "deadline", None) is not None and int(rt.deadline) != dl:
            ctx.violate("C08", "reader_deadline", f"reader: {s.uname} deadline {rt.deadline}, task has {dl}", {})
        if s.finishes and s.finish_time is not None and dl is not None:
            if bool(getattr(rt, "missed_deadline", False)) != (s.finish_time > dl):
                ctx.violate("C08", "reader_missed_deadline_flag",
                            f"reader: {s.uname} missed_deadline={rt.missed_deadline}, finished {s.finish_time}, "
                            f"deadline {dl}", {})
    for g in fin_graphs:
        tg = sim.task_graphs.get(g)
        if tg is None or not tg.was_completed:
            ctx.violate("C08", "reader_graph_completion", f"reader: graph {g} not completed", {})
