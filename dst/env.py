"""Process bootstrap: pin the hash seed, import /repo, silence its loggers, capture
its CSV trace in memory and put a fake wall clock behind the schedulers' `time`.

Seams owned here (all reachable from outside /repo, no hooks needed):
  * `utils.setup_logging` / `setup_csv_logging` (and every module that imported them
    by name) -> quiet loggers; the `*_CSV` logger gets an in-memory row handler;
  * module global `time` of every `schedulers.*` module -> FakeWallClock;
  * `random` (module global), `EventTime._rng` -> re-seeded per run by `reset_run`.
"""
import importlib
import logging
import os
import random
import sys

REPO = os.environ.get("ERDOS_REPO", "/repo")
VERIF = os.path.dirname(os.path.dirname(os.path.abspath(__file__)))

_BOOTSTRAPPED = False
CSV_ROWS = []  # rows of the current run (strings), filled by _CsvHandler


def ensure_hashseed():
    """Re-exec the interpreter with PYTHONHASHSEED=0 unless it already is pinned."""
    if os.environ.get("PYTHONHASHSEED") != "0" and not os.environ.get("DST_NO_REEXEC"):
        env = dict(os.environ)
        env["PYTHONHASHSEED"] = "0"
        os.execve(sys.executable, [sys.executable] + sys.argv, env)


class _CsvHandler(logging.Handler):
    def emit(self, record):
        CSV_ROWS.append(record.getMessage())


class _Null(logging.Handler):
    def emit(self, record):
        pass


_QUIET = {}


def _quiet_logger(name):
    lg = _QUIET.get(name)
    if lg is None:
        lg = logging.Logger("dstq." + name)
        lg.propagate = False
        if name.endswith("_CSV"):
            lg.setLevel(logging.DEBUG)
            lg.addHandler(_CsvHandler())
        else:
            lg.setLevel(logging.CRITICAL + 10)
            lg.addHandler(_Null())
        _QUIET[name] = lg
    return lg


def _setup_logging(name, fmt=None, date_fmt=None, log_dir=None, log_file=None,
                   log_level="debug"):
    # one shared silent logger for everything but the CSV trace (names are unbounded:
    # every Task asks for a logger named after itself)
    return _quiet_logger(name if name.endswith("_CSV") else "quiet")


def _setup_csv_logging(name, log_dir=None, log_file=None):
    return _quiet_logger(name + "_CSV")


class FakeWallClock:
    """Stands in for the `time` module inside schedulers/*.py.  Every call to
    time() advances by a value drawn from its own PRNG stream, so measured
    scheduler durations are a function of the run seed only (fault kind F2)."""

    def __init__(self):
        self._rng = random.Random(0)
        self._now = 1.7e9
        self.calls = 0
        self.mode = "jitter"

    def reseed(self, seed, mode="jitter"):
        self._rng = random.Random(f"{seed}:clock")
        self._now = 1.7e9
        self.calls = 0
        self.mode = mode

    def time(self):
        self.calls += 1
        r = self._rng.random()
        if self.mode == "jitter":
            step = r * 1e-4
        elif self.mode == "jump":
            step = 5.0 if r < 0.1 else r * 1e-4
        else:  # stall
            step = 0.0
        self._now += step
        return self._now

    def perf_counter(self):
        return self.time()

    def monotonic(self):
        return self.time()

    def sleep(self, _):
        return None

    def __getattr__(self, name):
        import time as _t

        return getattr(_t, name)


WALL = FakeWallClock()


def bootstrap():
    """Import /repo and install the seams.  Idempotent."""
    global _BOOTSTRAPPED
    if _BOOTSTRAPPED:
        return
    if REPO not in sys.path:
        sys.path.insert(0, REPO)
    os.environ.setdefault("GRB_LICENSE_FILE", os.environ.get("GRB_LICENSE_FILE", ""))
    import utils  # noqa

    orig_sl, orig_csl = utils.setup_logging, utils.setup_csv_logging
    utils.setup_logging = _setup_logging
    utils.setup_csv_logging = _setup_csv_logging
    # Import everything that binds the names.
    for mod in ("workload", "workers", "schedulers", "data", "simulator"):
        importlib.import_module(mod)
    for m in list(sys.modules.values()):
        if m is None:
            continue
        d = getattr(m, "__dict__", None)
        if not d:
            continue
        if d.get("setup_logging") is orig_sl:
            d["setup_logging"] = _setup_logging
        if d.get("setup_csv_logging") is orig_csl:
            d["setup_csv_logging"] = _setup_csv_logging
    import time as _real_time

    for name, m in list(sys.modules.items()):
        if name.startswith("schedulers.") and getattr(m, "time", None) is _real_time:
            m.time = WALL
    _BOOTSTRAPPED = True


def reset_run(seed, clock_mode="jitter"):
    """Re-seed every generator the system draws from (S4) and clear captured rows."""
    from utils import EventTime

    random.seed(f"{seed}:sys")
    EventTime._rng = random.Random(f"{seed}:eventtime")
    WALL.reseed(seed, clock_mode)
    del CSV_ROWS[:]
    for lg in _QUIET.values():
        if lg.filters:
            del lg.filters[:]


def repo_head():
    import subprocess

    try:
        return subprocess.run(["git", "-C", REPO, "rev-parse", "HEAD"], capture_output=True,
                              text=True, timeout=10).stdout.strip()
    except Exception:
        return "unknown"
