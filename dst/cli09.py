"""C09: runs are reproducible from the random seed.  The real `python main.py` is executed in
fresh interpreters: (a) baseline, (b) another PYTHONHASHSEED, (c) another PYTHONHASHSEED plus a
launcher that replaces nothing but the wall clock (skewed, jumping) -- fault kind F8.  The CSV
traces must be identical after masking the measured wall-clock scheduler durations."""
import hashlib
import json
import os
import random
import shutil
import subprocess
import sys
import tempfile

from . import cli19, env, world as W

LAUNCHER = r'''
import sys, time, runpy, random as _r
_real = time.time
_state = {"t": 1.6e9, "rng": _r.Random(%d)}
def _fake():
    x = _state["rng"].random()
    _state["t"] += 7.0 if x < 0.05 else x * 1e-3
    return _state["t"]
time.time = _fake
sys.setswitchinterval(1e-5)  # another machine: threads (if any) are switched far more often
# a different heap history: holes of many sizes, so that objects created later do not come out in address order
# (nothing in a trace may depend on id() / memory addresses)
class _J:
    pass
_junk = []
for _i in range(20000):
    _o = _J()
    if _state["rng"].random() < 0.5:
        _o.a = _i
    if _state["rng"].random() < 0.3:
        _o.b = [_i] * _state["rng"].randrange(1, 8)
    _junk.append(_o)
_state["rng"].shuffle(_junk)
_keep = _junk[: len(_junk) // 2]
del _junk, _o
# ... and another address space altogether: id() keeps identifying objects but orders them the other way round
import builtins
_real_id = builtins.id
builtins.id = lambda _obj: -_real_id(_obj)
sys.argv = ["main.py"] + sys.argv[1:]
runpy.run_path("main.py", run_name="__main__")
'''


def gen_case(seed):
    r = random.Random(f"{seed}:c09")
    kind = r.choice(["greedy", "greedy", "greedy", "plan", "clockwork", "plan_random"])
    if kind == "greedy":
        w = W.gen_world(seed, "greedy", {"p_batch_loader": 0, "p_conditionals": 0.5, "p_variance": 0.5,
                                         "release_kinds": ["fixed", "poisson", "gamma", "closed_loop", "poisson",
                                                           "gamma"]})
    elif kind == "plan":
        w = W.gen_world(seed, "plan", dict(W.PLAN_OPTS, p_solver_chaos=0.0,
                                           release_kinds=["fixed", "poisson", "gamma"]))
        w["policy"]["runtime"] = 0
    elif kind == "plan_random":
        # planners that look ahead across unresolved conditionals with the RANDOM branch prediction policy (the
        # only one the TetriSched policies have): every frontier query draws from the seeded generator
        w = W.gen_world(seed, "plan", dict(W.PLAN_OPTS, p_solver_chaos=0.0, p_conditionals=1.0, max_nodes=5,
                                           release_kinds=["fixed", "poisson", "gamma"], lookaheads=[2, 5, 20],
                                           policies=["TetriSchedCPLEX", "TetriSchedGurobi", "ILP"]))
        w["policy"]["runtime"] = 0
        w["policy"]["branch_policy"] = "random"
    else:
        w = W.gen_world(seed, "clockwork", {})
        w["preload"] = []
        w["flags"]["scheduler_run_load"] = True
        # twins: strategies of one model that tie on runtime and batch size and differ only in their resources
        # (an order among them must not come from anything process-specific)
        rt_ = random.Random(f"{seed}:c09:twins")
        for pname in sorted(w["profiles"]):
            if rt_.random() < 0.6:
                st = dict(rt_.choice(w["profiles"][pname]["strategies"]))
                st["req"] = dict(st["req"], **{"RAM:any": 1})
                w["profiles"][pname]["strategies"].insert(rt_.randrange(len(w["profiles"][pname]["strategies"]) + 1), st)
    # make sure randomness is in play: deadline variance on every graph
    for g in w["graphs"]:
        if g.get("deadline_variance") in (None, [0, 0]) and r.random() < 0.7:
            g["deadline_variance"] = r.choice([[0, 50], [10, 100], [0, 300]])
        if g["release"]["type"] in ("fixed_gamma",):
            g["release"] = {"type": "gamma", "rate": 0.3, "coefficient": 1.0,
                            "invocations": g["release"]["invocations"], "start": 0}
        if g["release"]["type"] == "periodic":
            g["release"] = {"type": "fixed", "period": g["release"]["period"], "invocations": 3,
                            "start": g["release"].get("start", 0)}
    w["faults"]["cut"] = None
    w["sim"]["loop_timeout"] = min(w["sim"]["loop_timeout"], 3000)
    rr = random.Random(f"{seed}:c09:replication")
    if kind == "greedy" and rr.random() < 0.35:
        # --replication_factor: every job graph is loaded k times, each replica with its own arrival process
        # (8: with >= 16 job graphs a loader that expands them on several threads would interleave the draws
        # from the shared seeded generators differently in every process)
        w["replication_factor"] = rr.choice([2, 3, 3, 8])
        if w["replication_factor"] == 8:
            w["graphs"] = w["graphs"][:2]  # 16 job graphs are enough, keep the run short
        for g in w["graphs"]:
            g["release"]["invocations"] = min(g["release"].get("invocations", 2), 2)
    return {"seed": seed, "world": w, "format": r.choice(["json", "yaml"]),
            # seed 0 is a seed like any other (and the one a falsy-check slip would lose)
            "random_seed": 0 if r.random() < 0.2 else r.randrange(1, 10 ** 6)}


SCHED_FLAG = {"EDF": "EDF", "FIFO": "FIFO", "LSF": "LSF", "ILP": "ILP", "TetriSchedGurobi": "TetriSched_Gurobi",
              "TetriSchedCPLEX": "TetriSched_CPLEX", "Clockwork": "Clockwork"}
BP_FLAG = {"worst": "worst", "best": "best", "max": "max", "random": "random", "all": "worst"}


def flag_lines(case, tmp, tag):
    w = case["world"]
    pol = w["policy"]
    fl = w["flags"]
    ext = case["format"]
    lines = [
        f"--execution_mode={ext}",
        f"--workload_profile_path={os.path.join(tmp, 'workload.' + ext)}",
        f"--worker_profile_path={os.path.join(tmp, 'workers.' + ext)}",
        f"--csv_file_name={os.path.join(tmp, tag + '.csv')}",
        f"--log_file_name={os.path.join(tmp, tag + '.log')}",
        "--log_level=warning",
        f"--random_seed={case['random_seed']}",
        f"--scheduler={SCHED_FLAG[pol['name']]}",
        f"--scheduler_runtime={pol.get('runtime', 0)}",
        f"--scheduler_frequency={w['sim']['scheduler_frequency']}",
        f"--loop_timeout={w['sim']['loop_timeout']}",
        f"--scheduler_delay={fl['scheduler_delay']}",
        f"--runtime_variance={fl['runtime_variance']}",
        f"--min_deadline_variance={fl['min_deadline_variance']}",
        f"--max_deadline_variance={fl['max_deadline_variance']}",
        f"--min_deadline={fl['min_deadline']}",
        f"--max_deadline={fl['max_deadline']}",
        f"--scheduler_lookahead={pol.get('lookahead', 0)}",
        f"--scheduler_policy={BP_FLAG[pol.get('branch_policy', 'worst')]}",
    ]
    for name, val in (("drop_skipped_tasks", fl["drop_skipped_tasks"]),
                      ("scheduler_run_at_worker_free", fl["scheduler_run_at_worker_free"]),
                      ("resolve_conditionals_at_submission", fl["resolve_conditionals_at_submission"]),
                      ("decompose_deadlines", fl["decompose_deadlines"]),
                      ("scheduler_run_load", fl.get("scheduler_run_load", False)),
                      ("enforce_deadlines", pol.get("enforce_deadlines", False)),
                      ("retract_schedules", pol.get("retract", False)),
                      ("release_taskgraphs", pol.get("release_taskgraphs", False))):
        lines.append(f"--{name}" if val else f"--no{name}")
    if w.get("replication_factor", 1) > 1:
        lines.append(f"--replication_factor={w['replication_factor']}")
    if pol["name"] == "ILP":
        lines.append(f"--ilp_goal={pol.get('goal', 'max_goodput')}")
    if pol["name"].startswith("TetriSched"):
        lines.append(f"--scheduler_plan_ahead={pol.get('plan_ahead', 10)}")
        lines.append(f"--scheduler_time_discretization={pol.get('discretization', 1)}")
    if pol["name"] == "Clockwork":
        lines.append(f"--clockwork_goal={pol.get('goal', 'clockwork')}")
    return lines


def mask(rows):
    out = []
    for r in rows:
        parts = r.rstrip("\n").split(",")
        if parts[0] == "input_flag":
            if parts[1] in ("csv_file_name", "csv", "log_file_name", "log", "flagfile"):
                continue
        if len(parts) > 1 and parts[1] == "SCHEDULER_FINISHED":
            parts[-1] = "<wall>"
        out.append(",".join(parts))
    return out


def run_case(case):
    w = case["world"]
    V = []
    tmp = tempfile.mkdtemp(prefix="erdos-verif-")
    outcome = "ended"
    probes = {}
    rows = {}
    rcs = {}
    try:
        wl, wk = cli19.to_descriptions(w)
        ext = case["format"]
        cli19._dump(wl, os.path.join(tmp, f"workload.{ext}"))
        cli19._dump(wk, os.path.join(tmp, f"workers.{ext}"))
        variants = [("a", "0", False), ("b", str(1 + case["seed"] % 4000), False),
                    ("c", str(5000 + case["seed"] % 4000), True)]
        for tag, hs, skew in variants:
            ff = os.path.join(tmp, f"{tag}.flags")
            with open(ff, "w") as f:
                f.write("\n".join(flag_lines(case, tmp, tag)) + "\n")
            e = dict(os.environ)
            e["PYTHONHASHSEED"] = hs
            e.pop("DST_NO_REEXEC", None)
            if skew:
                cmd = [sys.executable, "-c", LAUNCHER % case["seed"], f"--flagfile={ff}"]
            else:
                cmd = [sys.executable, "main.py", f"--flagfile={ff}"]
            try:
                p = subprocess.run(cmd, cwd=env.REPO, env=e, capture_output=True, text=True, timeout=170)
                rcs[tag] = p.returncode
                err = p.stderr[-600:]
            except subprocess.TimeoutExpired:
                rcs[tag] = "timeout"
                err = ""
            path = os.path.join(tmp, tag + ".csv")
            rows[tag] = mask(open(path).read().splitlines()) if os.path.exists(path) else None
            if rcs[tag] not in (0,):
                probes["main_exit_nonzero"] = probes.get("main_exit_nonzero", 0) + 1
                last_err = err
    finally:
        shutil.rmtree(tmp, ignore_errors=True)
    kinds = sorted({g["release"]["type"] for g in w["graphs"]})
    cause_base = {"policy": w["policy"]["name"]}
    if any(v is None for v in rows.values()) or len(set(map(str, rcs.values()))) > 1:
        if len(set(map(str, rcs.values()))) > 1:
            V.append({"property": "C09", "oracle": "exit_status_differs",
                      "detail": f"main.py exit statuses differ between identical runs: {rcs}", "cause": cause_base})
        outcome = "crash" if all(v != 0 for v in rcs.values()) else outcome
    if all(v is not None for v in rows.values()):
        base = rows["a"]
        for tag, what in (("b", "another PYTHONHASHSEED"), ("c", "another PYTHONHASHSEED and a skewed wall clock")):
            other = rows[tag]
            if other != base:
                i = 0
                while i < min(len(base), len(other)) and base[i] == other[i]:
                    i += 1
                a = base[i] if i < len(base) else "<end>"
                b = other[i] if i < len(other) else "<end>"
                rt = (a.split(",") + ["", ""])[1]
                order_only = sorted(base) == sorted(other)
                # do the traces still differ once rows at the same instant are compared as multisets?
                V.append({"property": "C09", "oracle": "trace_differs",
                          "detail": f"same workload, cluster, flags and --random_seed={case['random_seed']} but "
                                    f"{what} gives a different trace: first difference at row {i}: "
                                    f"{a[:140]!r} vs {b[:140]!r}",
                          "cause": dict(cause_base, row_type=rt, order_only=order_only,
                                        random_arrivals=any(k in ("poisson", "gamma") for k in kinds))})
                break
        probes["compared"] = 1
        if any(k in ("poisson", "gamma") for k in kinds):
            probes["random_arrivals"] = 1
        if any(n.get("conditional") for g in w["graphs"] for n in g["nodes"]):
            probes["conditionals"] = 1
        if w["flags"]["runtime_variance"]:
            probes["runtime_variance"] = 1
        if len(w["cluster"]["types"]) > 1:
            probes["multi_resource_types"] = 1
    nrows = len(rows["a"]) if rows.get("a") else 0
    fp = (w["policy"]["name"], tuple(kinds), case["format"], tuple(sorted(probes)), min(nrows // 50, 10),
          len(w["cluster"]["types"]), str(rcs.get("a")))
    return {"seed": case["seed"], "outcome": outcome, "violations": V, "probes": probes,
            "faults": {"hashseed_varied": 2, "wall_clock_skewed": 1}, "stats": {"started": nrows, "rows": nrows},
            "fingerprint": hashlib.md5(repr(fp).encode()).hexdigest()[:16],
            "trace_tail": [[i, 0, "ROW", r] for i, r in enumerate((rows.get("a") or [])[-20:])],
            "exit": {k: str(v) for k, v in rcs.items()}}


def run(prop, seed, stream):
    c = gen_case(seed)
    r = run_case(c)
    w = c["world"]
    r["sample"] = {"policy": w["policy"], "random_seed": c["random_seed"], "format": c["format"],
                   "graphs": [{"name": g["name"], "release": g["release"], "nodes": len(g["nodes"])} for g in w["graphs"]],
                   "exit": r.get("exit")}
    return r


def case(prop, seed, stream):
    return gen_case(seed)


def run_case_(prop, c):
    return run_case(c)


def shrink_case(prop, c, v):
    import copy

    from . import shrink

    def still(wd):
        cc = dict(c)
        cc["world"] = wd
        r = run_case(copy.deepcopy(cc))
        return any(x["oracle"] == v["oracle"] and x["cause"].get("row_type") == v["cause"].get("row_type")
                   for x in r["violations"])

    wd, runs, steps = shrink.shrink(c["world"], still, max_runs=25, max_seconds=90)
    cc = dict(c)
    cc["world"] = wd
    return cc, runs, steps
