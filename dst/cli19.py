"""C19: workload / cluster descriptions (YAML and JSON) are instantiated faithfully by the real
WorkloadLoader / WorkerLoader.  The closed-loop clause that depends on the run (in-flight bound,
total N) is checked at every event boundary of simulated runs (oracles.closed_loop_boundary)."""
import hashlib
import json
import os
import random
import shutil
import tempfile

from . import build, env, world as W


def gen_case(seed):
    r = random.Random(f"{seed}:c19")
    opts = {"p_batch_loader": 0, "p_conditionals": 0.4, "max_nodes": r.choice([3, 5, 8]),
            "p_zero_runtime": 0.15}
    w = W.gen_world(seed, "greedy", opts)
    # explicit resource ids half of the time, several specific-id requirements
    for p in w["profiles"].values():
        for s in p["strategies"]:
            if r.random() < 0.15:
                # turn one `any` requirement into a specific id that exists somewhere
                ids = [(x["name"], x["id"]) for pl in w["cluster"]["pools"] for wk in pl["workers"]
                       for x in wk["resources"] if x["id"]]
                if ids:
                    n, i = r.choice(ids)
                    s["req"] = {f"{n}:{i}": 1}
    # batch sizes other than the default on some strategies (the loader must keep them per strategy)
    rb = random.Random(f"{seed}:c19:batch")
    if rb.random() < 0.5:
        for p in w["profiles"].values():
            for s in p["strategies"]:
                if rb.random() < 0.4:
                    s["batch"] = rb.choice([2, 4])
    # per-node SLOs on some nodes
    slo_mode = r.choice(["none", "none", "some", "all"])
    for g in w["graphs"]:
        for n in g["nodes"]:
            if slo_mode == "all" or (slo_mode == "some" and r.random() < 0.4):
                n["slo"] = r.choice([3, 7, 11, 20])
    case = {"seed": seed, "world": w, "format": r.choice(["json", "yaml"]),
            "with_flags": r.random() < 0.6, "overrides": {}, "terse": rb.random() < 0.5}
    if case["with_flags"]:
        ov = {}
        if r.random() < 0.2:
            ov["override_num_invocation"] = r.choice([1, 2, 3])
        if r.random() < 0.2:
            ov["override_arrival_period"] = r.choice([1, 4])
        if r.random() < 0.15:
            ov["override_slo"] = r.choice([5, 9])
        if r.random() < 0.2:
            ov["replication_factor"] = r.choice([2, 3])
            ov["unique_work_profiles"] = r.random() < 0.5
        if r.random() < 0.15:
            ov["override_poisson_arrival_rate"] = r.choice([0.5, 1.0])
        if r.random() < 0.1:
            ov["override_gamma_coefficient"] = r.choice([0.5, 2.0])
        case["overrides"] = ov
    return case


def _strategy_desc(s, terse):
    d = {"batch_size": s.get("batch", 1), "runtime": s["runtime"], "resource_requirements": dict(s["req"])}
    if terse:
        # optional keys whose value is the documented default are left out
        if d["batch_size"] == 1:
            del d["batch_size"]
        if d["runtime"] == 0:
            del d["runtime"]
    return d


def to_descriptions(w, terse=False):
    profiles = []
    for p in w["profiles"].values():
        d = {"name": p["name"], "execution_strategies": [_strategy_desc(s, terse) for s in p["strategies"]]}
        if p.get("loading"):
            d["loading_strategies"] = [_strategy_desc(s, terse) for s in p["loading"]]
        profiles.append(d)
    graphs = []
    for g in w["graphs"]:
        nodes = []
        for k_, n in enumerate(g["nodes"]):
            nd = {"name": n["name"], "work_profile": n["profile"]}
            # optional attributes are spelled out (with their default value) on every other non-source node
            has_parent = any(n["name"] in m["children"] for m in g["nodes"])
            terse_ = terse or not has_parent or k_ % 2 == 1
            if n["children"]:
                nd["children"] = list(n["children"])
            if n.get("conditional"):
                nd["conditional"] = True
            elif not terse_:
                nd["conditional"] = False  # optional attributes spelled out with their default value
            if n.get("terminal"):
                nd["terminal"] = True
            elif not terse_:
                nd["terminal"] = False
            if n.get("probability", 1.0) != 1.0 or not terse_:
                nd["probability"] = n.get("probability", 1.0)
            if n.get("slo") is not None:
                nd["slo"] = n["slo"]
            nodes.append(nd)
        rel = g["release"]
        gd = {"name": g["name"], "graph": nodes, "release_policy": rel["type"]}
        for k_src, k_dst in (("period", "period"), ("invocations", "invocations"), ("start", "start"),
                             ("rate", "rate"), ("coefficient", "coefficient"), ("concurrency", "concurrency")):
            if k_src in rel:
                gd[k_dst] = rel[k_src]
        if g.get("deadline_variance") is not None:
            gd["deadline_variance"] = list(g["deadline_variance"])
        graphs.append(gd)
    workers = []
    for p in w["cluster"]["pools"]:
        ws = []
        for wk in p["workers"]:
            ws.append({"name": wk["name"], "resources": [
                {"name": (f"{x['name']}:{x['id']}" if x["id"] else x["name"]), "quantity": x["q"]}
                for x in wk["resources"]]})
        workers.append({"name": p["name"], "workers": ws})
    return {"profiles": profiles, "graphs": graphs}, workers


def _dump(obj, path):
    if path.endswith(".json"):
        with open(path, "w") as f:
            json.dump(obj, f, indent=1)
    else:
        import yaml

        with open(path, "w") as f:
            yaml.safe_dump(obj, f, sort_keys=False)


def run_case(case):
    env.bootstrap()
    env.reset_run(case["seed"])
    from . import policies  # noqa (nothing needed, keeps import order stable)
    import workload.jobs as jobs_mod

    V = []
    probes = {}

    def vio(oracle, detail, cause=None):
        if not any(v["oracle"] == oracle for v in V):
            V.append({"property": "C19", "oracle": oracle, "detail": detail, "cause": cause or {}})

    def probe(k):
        probes[k] = probes.get(k, 0) + 1

    w = case["world"]
    # the world generator only emits fixed_gamma for direct construction; the loader has no such policy
    for g in w["graphs"]:
        if g["release"]["type"] == "fixed_gamma":
            g["release"] = {"type": "gamma", "rate": g["release"]["rate"], "coefficient": g["release"]["coefficient"],
                            "invocations": g["release"]["invocations"], "start": g["release"].get("start", 0)}
        if g["release"]["type"] == "periodic" and not case["with_flags"]:
            # without flags the horizon is sys.maxsize: an unbounded periodic release is a precondition
            # violation of the description, not a defect
            g["release"] = {"type": "fixed", "period": g["release"]["period"], "invocations": 3,
                            "start": g["release"].get("start", 0)}
    wl_desc, wk_desc = to_descriptions(w, terse=bool(case.get("terse")))
    tmp = tempfile.mkdtemp(prefix="erdos-verif-")
    outcome = "ended"
    try:
        ext = case["format"]
        wl_path = os.path.join(tmp, f"workload.{ext}")
        wk_path = os.path.join(tmp, f"workers.{ext}")
        _dump(wl_desc, wl_path)
        _dump(wk_desc, wk_path)
        flags = None
        if case["with_flags"]:
            flags = build.make_flags(w)
            for k, v in case["overrides"].items():
                setattr(flags, k, v)
        # seed the arrival generator (seam S4): ReleasePolicy uses an unseeded numpy generator
        np_orig = jobs_mod.np

        class _NP:
            def __getattr__(self, name):
                return getattr(np_orig, name)

        class _Rand:
            @staticmethod
            def default_rng(seed=None):
                return np_orig.random.default_rng(case["seed"] if seed is None else seed)

            def __getattr__(self, name):
                return getattr(np_orig.random, name)

        npx = _NP()
        npx.random = _Rand()
        jobs_mod.np = npx
        try:
            from data import WorkerLoader, WorkloadLoader

            try:
                wloader = WorkloadLoader(path=wl_path, _flags=flags)
            except Exception as e:  # noqa
                import traceback

                tb = traceback.extract_tb(e.__traceback__)
                site = ""
                for fs in tb:
                    if fs.filename.startswith(env.REPO):
                        site = f"{fs.filename[len(env.REPO) + 1:]}:{fs.name}"
                vio("workload_loader_raised", f"WorkloadLoader raised {type(e).__name__}: {e} at {site}",
                    {"exc": type(e).__name__, "site": site, "with_flags": case["with_flags"],
                     "release_kinds": sorted({g["release"]["type"] for g in w["graphs"]})})
                wloader = None
            try:
                kloader = WorkerLoader(worker_profile_path=wk_path, _flags=flags)
            except Exception as e:  # noqa
                vio("worker_loader_raised", f"WorkerLoader raised {type(e).__name__}: {e}", {"exc": type(e).__name__})
                kloader = None
        finally:
            jobs_mod.np = np_orig
        if kloader is not None:
            check_workers(w, kloader.get_worker_pools(), vio, probe)
        if wloader is not None:
            check_workload(case, w, wloader.workload, vio, probe)
    finally:
        shutil.rmtree(tmp, ignore_errors=True)
    ngraphs = len(w["graphs"])
    fp = (case["format"], case["with_flags"], tuple(sorted(case["overrides"])),
          tuple(sorted((g["release"]["type"], len(g["nodes"]), g["shape"],
                        any(n.get("slo") is not None for n in g["nodes"])) for g in w["graphs"])),
          tuple(len(p["workers"]) for p in w["cluster"]["pools"]), tuple(sorted(probes)))
    return {"seed": case["seed"], "outcome": outcome, "violations": V, "probes": probes, "faults": {},
            "stats": {"started": ngraphs, "graphs": ngraphs},
            "fingerprint": hashlib.md5(repr(fp).encode()).hexdigest()[:16],
            "trace_tail": []}


def check_workers(w, pools, vio, probe):
    got = list(pools.worker_pools)
    if [p.name for p in got] != [p["name"] for p in w["cluster"]["pools"]]:
        vio("pool_names", f"pools {[p.name for p in got]} vs described {[p['name'] for p in w['cluster']['pools']]}")
        return
    for gp, sp in zip(got, w["cluster"]["pools"]):
        if [x.name for x in gp.workers] != [x["name"] for x in sp["workers"]]:
            vio("worker_names", f"pool {gp.name}: workers {[x.name for x in gp.workers]}")
            continue
        for gw, sw in zip(gp.workers, sp["workers"]):
            # dict keys (name, id): a repeated un-named resource is a separate instance
            res = list(gw.resources.resources)
            want = [(x["name"], x["id"], x["q"]) for x in sw["resources"]]
            if len(res) != len(want):
                vio("worker_resource_count", f"worker {gw.name}: {len(res)} resources loaded, {len(want)} described",
                    {})
                continue
            for (r_, q), (n, i, wq) in zip(res, want):
                if r_.name != n or q != wq or (i is not None and r_.id != i):
                    vio("worker_resource", f"worker {gw.name}: loaded {r_.name}:{r_.id}={q}, described {n}:{i}={wq}")
            if len({(r_.name, r_.id) for r_, _ in res}) != len(res):
                vio("worker_resource_ids_collide", f"worker {gw.name}: two instances share an id")
    probe("workers_checked")


def check_workload(case, w, workload, vio, probe):
    from utils import EventTime

    ov = case["overrides"] if case["with_flags"] else {}
    rep = ov.get("replication_factor", 1)
    jgs = workload.job_graphs
    expect_names = []
    for g in w["graphs"]:
        if rep > 1:
            expect_names += [f"{g['name']}_{i}" for i in range(1, rep + 1)]
        else:
            expect_names.append(g["name"])
    if sorted(jgs) != sorted(expect_names):
        vio("job_graph_names", f"job graphs {sorted(jgs)} vs described {sorted(expect_names)}", {"replication": rep})
        return
    timeout = w["sim"]["loop_timeout"] if case["with_flags"] else None
    for g in w["graphs"]:
        names = [f"{g['name']}_{i}" for i in range(1, rep + 1)] if rep > 1 else [g["name"]]
        for jn in names:
            jg = jgs[jn]
            check_job_graph(case, w, g, jg, ov, vio, probe)
            tgs = {n: tg for n, tg in workload.task_graphs.items() if n.split("@")[0] == jn}
            check_releases(case, w, g, jn, jg, tgs, ov, timeout, vio, probe)


def _strategy_sig(s):
    return (s.get("batch", 1), s["runtime"], tuple(sorted(s["req"].items())))


def check_job_graph(case, w, g, jg, ov, vio, probe):
    spec_nodes = {n["name"]: n for n in g["nodes"]}
    jobs = {j.name: j for j in jg.get_nodes()}
    if sorted(jobs) != sorted(spec_nodes):
        vio("job_names", f"{jg.name}: jobs {sorted(jobs)} vs described {sorted(spec_nodes)}")
        return
    first_slo = None
    for n in g["nodes"]:
        j = jobs[n["name"]]
        kids = sorted(c.name for c in jg.get_children(j))
        if kids != sorted(n["children"]):
            vio("job_edges", f"{jg.name}/{j.name}: children {kids} vs described {sorted(n['children'])}")
        if bool(j.conditional) != bool(n.get("conditional")) or bool(j.terminal) != bool(n.get("terminal")):
            vio("job_marks", f"{jg.name}/{j.name}: conditional={j.conditional} terminal={j.terminal}")
        if j.probability != n.get("probability", 1.0):
            vio("job_probability", f"{jg.name}/{j.name}: probability {j.probability} vs {n.get('probability', 1.0)}")
        want_slo = n.get("slo")
        if ov.get("override_slo", -1) > 0:
            want_slo = ov["override_slo"]
        got_slo = None if j.slo.is_invalid() else j.slo.to(type(j.slo).Unit.US).time
        if got_slo != want_slo:
            vio("job_slo", f"{jg.name}/{j.name}: slo {got_slo} vs described {want_slo}",
                {"described_none": want_slo is None, "earlier_node_has_slo": first_slo is not None})
        if n.get("slo") is not None and first_slo is None:
            first_slo = n["slo"]
        sp = w["profiles"][n["profile"]]
        got = sorted((s.batch_size, s.runtime.time, tuple(sorted((f"{r_.name}:{r_.id}", q) for r_, q in s.resources.resources)))
                     for s in j.profile.execution_strategies)
        want = sorted(_strategy_sig(s) for s in sp["strategies"])
        if got != want:
            vio("job_strategies", f"{jg.name}/{j.name}: strategies {got} vs described {want}")
        if not j.profile.name.startswith(sp["name"]):
            vio("job_profile_name", f"{jg.name}/{j.name}: profile {j.profile.name} vs described {sp['name']}")
    probe("job_graph_checked")
    if any(n.get("conditional") for n in g["nodes"]):
        probe("conditional_graph_checked")


def _paths(g):
    by = {n["name"]: n for n in g["nodes"]}
    indeg = {n["name"]: 0 for n in g["nodes"]}
    for n in g["nodes"]:
        for c in n["children"]:
            indeg[c] += 1
    out = []

    def rec(x, acc):
        acc = acc + [x]
        if not by[x]["children"]:
            out.append(acc)
            return
        for c in by[x]["children"]:
            rec(c, acc)

    for s in [n for n, d in indeg.items() if d == 0]:
        rec(s, [])
    return out


def deadline_ranges(w, g, ov, with_flags):
    """(bases, variance, lower bound, upper bound) of `deadline - release` for the task graphs of job graph g"""
    spec_nodes = {n["name"]: n for n in g["nodes"]}
    paths = _paths(g)
    profs = w["profiles"]

    def slow(n):
        return max(s["runtime"] for s in profs[spec_nodes[n]["profile"]]["strategies"])

    def weight(n):
        return slow(n) if spec_nodes[n].get("probability", 1.0) > 0 else 0

    def length(n):
        s = spec_nodes[n].get("slo")
        if ov.get("override_slo", -1) > 0:
            s = ov["override_slo"]
        return s if s is not None else slow(n)

    def lengths(n):
        if spec_nodes[n].get("probability", 1.0) <= 0 and spec_nodes[n].get("slo") is None \
                and not ov.get("override_slo", -1) > 0:
            return {0, slow(n)}
        return {length(n)}

    def path_sums(p):
        sums = {0}
        for n in p:
            sums = {a + b for a in sums for b in lengths(n)}
        return sums

    best = max(sum(weight(n) for n in p) for p in paths)
    bases = sorted(set().union(*[path_sums(p) for p in paths if sum(weight(n) for n in p) == best]))
    dv = g.get("deadline_variance")
    if dv is None:
        dv = [w["flags"]["min_deadline_variance"], w["flags"]["max_deadline_variance"]] if with_flags else [0, 0]
    lo_b, hi_b = 0, 2 ** 63 - 1
    if with_flags:
        lo_b, hi_b = w["flags"]["min_deadline"], w["flags"]["max_deadline"]
    zero_w = any(weight(n) == 0 for n in spec_nodes)
    return bases, dv, lo_b, hi_b, zero_w


def deadline_in_range(rt, dls, bases, dv, lo_b, hi_b):
    for base in bases:
        inc_lo = max(lo_b, min(hi_b, base * abs(dv[0]) / 100.0))
        inc_hi = max(lo_b, min(hi_b, base * abs(dv[1]) / 100.0))
        if all(round(base + inc_lo) - 1e-9 <= d - rt <= round(base + inc_hi) + 1e-9 for d in dls):
            return True
    return False


def check_releases(case, w, g, jn, jg, tgs, ov, timeout, vio, probe):
    rel = dict(g["release"])
    if "override_num_invocation" in ov and rel["type"] in ("fixed",):
        rel["invocations"] = ov["override_num_invocation"]
    if "override_arrival_period" in ov and rel["type"] in ("fixed", "periodic"):
        rel["period"] = ov["override_arrival_period"]
    if "override_poisson_arrival_rate" in ov and rel["type"] in ("poisson", "gamma"):
        rel["rate"] = ov["override_poisson_arrival_rate"]
    t = rel["type"]
    start = rel.get("start", 0)
    ordered = sorted(tgs.items(), key=lambda kv: int(kv[0].split("@")[1]))
    idx = [int(k.split("@")[1]) for k, _ in ordered]
    if idx != list(range(len(idx))):
        vio("invocation_indices", f"{jn}: task graphs {sorted(tgs)}")
    rts = []
    for name, tg in ordered:
        rts.append(tg.release_time.to(type(tg.release_time).Unit.US).time)
    cause = {"policy": t, "with_flags": case["with_flags"]}
    if t == "fixed":
        want = [start + i * rel["period"] for i in range(rel["invocations"])]
        if rts != want:
            vio("fixed_releases", f"{jn}: releases {rts}, declared {want}", cause)
    elif t == "periodic":
        horizon = timeout if timeout is not None else None
        if horizon is not None:
            want = list(range(start, horizon, rel["period"]))
            if rts != want:
                vio("periodic_releases", f"{jn}: releases {rts[:8]}.. ({len(rts)}), declared every {rel['period']} from "
                    f"{start} until {horizon}: {want[:8]}.. ({len(want)})", cause)
    elif t in ("poisson", "gamma"):
        if len(rts) != rel["invocations"]:
            vio("arrival_count", f"{jn}: {len(rts)} releases, declared {rel['invocations']}", cause)
        if rts and rts[0] != start:
            vio("arrival_start", f"{jn}: first release {rts[0]}, declared start {start}", cause)
        if any(b < a for a, b in zip(rts, rts[1:])):
            vio("arrival_order", f"{jn}: releases not non-decreasing: {rts}", cause)
    elif t == "closed_loop":
        want = [start] * min(rel["concurrency"], rel["invocations"])
        if rts != want:
            vio("closed_loop_initial", f"{jn}: initial releases {rts}, declared {want}", cause)
    probe("release_" + t)
    # fresh isomorphic copies
    seen_ids = set()
    spec_nodes = {n["name"]: n for n in g["nodes"]}
    paths = _paths(g)
    profs = w["profiles"]

    def slow(n):
        return max(s["runtime"] for s in profs[spec_nodes[n]["profile"]]["strategies"])

    def weight(n):
        return slow(n) if spec_nodes[n].get("probability", 1.0) > 0 else 0

    def length(n):
        s = spec_nodes[n].get("slo")
        if ov.get("override_slo", -1) > 0:
            s = ov["override_slo"]
        return s if s is not None else slow(n)

    best = max(sum(weight(n) for n in p) for p in paths)
    def lengths(n):
        # a probability-0 node without an SLO weighs nothing on the critical path; whether its runtime still
        # counts towards the path's time is not something the property settles: both are accepted
        if spec_nodes[n].get("probability", 1.0) <= 0 and spec_nodes[n].get("slo") is None \
                and not ov.get("override_slo", -1) > 0:
            return {0, slow(n)}
        return {length(n)}

    def path_sums(p):
        sums = {0}
        for n in p:
            sums = {a + b for a in sums for b in lengths(n)}
        return sums

    bases = sorted(set().union(*[path_sums(p) for p in paths if sum(weight(n) for n in p) == best]))
    dv = g.get("deadline_variance")
    if dv is None:
        dv = [0, 0]  # the loader's own default when the description has none
    lo_b, hi_b = 0, 2 ** 63 - 1
    if case["with_flags"]:
        lo_b, hi_b = w["flags"]["min_deadline"], w["flags"]["max_deadline"]
    for name, tg in ordered:
        tasks = {tk.name: tk for tk in tg.get_nodes()}
        if sorted(tasks) != sorted(spec_nodes):
            vio("task_names", f"{name}: tasks {sorted(tasks)}")
            continue
        for n, tk in tasks.items():
            if id(tk) in seen_ids:
                vio("shared_task_object", f"{name}/{n}: task object shared between invocations")
            seen_ids.add(id(tk))
            kids = sorted(c.name for c in tg.get_children(tk))
            if kids != sorted(spec_nodes[n]["children"]):
                vio("task_edges", f"{name}/{n}: children {kids}")
            if tk.task_graph != name:
                vio("task_graph_name", f"{name}/{n}: task_graph field {tk.task_graph}")
        if w["flags"].get("decompose_deadlines") and case["with_flags"]:
            continue
        rt = tg.release_time.to(type(tg.release_time).Unit.US).time
        dls = {tk.deadline.to(type(tk.deadline).Unit.US).time for tk in tasks.values()}
        ok = False
        for base in bases:
            inc_lo = max(lo_b, min(hi_b, base * abs(dv[0]) / 100.0))
            inc_hi = max(lo_b, min(hi_b, base * abs(dv[1]) / 100.0))
            if all(round(base + inc_lo) - 1e-9 <= d - rt <= round(base + inc_hi) + 1e-9 for d in dls):
                ok = True
        if not ok and not (case["with_flags"] and w["flags"].get("use_branch_predicated_deadlines")):
            vio("deadline_out_of_range",
                f"{name}: release {rt}, deadlines {sorted(dls)}, critical-path/SLO base {bases}, variance {dv}, "
                f"bounds {[lo_b, hi_b]}", {"slo": any(spec_nodes[n].get("slo") is not None for n in spec_nodes) or ov.get("override_slo", -1) > 0,
                                          "zero_weight_node": any(weight(n) == 0 for n in spec_nodes),
                                          "zero_probability_branch": any(spec_nodes[n].get("probability", 1.0) == 0
                                                                         for n in spec_nodes)})
    probe("deadlines_checked")


# ---------------------------------------------------------------- engine glue
def run(prop, seed, stream):
    c = gen_case(seed)
    r = run_case(c)
    w = c["world"]
    r["sample"] = {"format": c["format"], "with_flags": c["with_flags"], "overrides": c["overrides"],
                   "graphs": [{"name": g["name"], "release": g["release"], "nodes": len(g["nodes"])} for g in w["graphs"]]}
    return r


def case(prop, seed, stream):
    return gen_case(seed)


def run_case_(prop, c):
    return run_case(c)


def shrink_case(prop, c, v):
    import copy

    from . import shrink

    def still(wd):
        cc = dict(c)
        cc["world"] = wd
        r = run_case(copy.deepcopy(cc))
        return any(x["oracle"] == v["oracle"] for x in r["violations"])

    wd, runs, steps = shrink.shrink(c["world"], still, max_runs=120, max_seconds=40)
    cc = dict(c)
    cc["world"] = wd
    return cc, runs, steps
