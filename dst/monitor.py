"""Observation seams (class-level wrappers on /repo's public API), the per-run shadow
state, and the online invariants evaluated at every event boundary.

`EventQueue.next()` is the event boundary: when the simulator asks for the next event the
previous one has been handled completely.  All oracles here are written from the property
statements (properties.jsonl), using trivial reference models: an integer ledger per
worker, a per-task record with a parent map taken from the world spec, and a mirror list
of pending events.
"""
import traceback

from . import env

CURRENT = None  # the active RunCtx (None -> wrappers are pass-through)
_INSTALLED = False


class Livelock(BaseException):
    """Raised by the watchdog to leave Simulator.simulate()."""


class StepBudget(BaseException):
    """The run used more loop iterations than the harness allows (inconclusive)."""


class HarnessError(BaseException):
    """A bug in the harness itself (never reported as a violation)."""


class Violation:
    __slots__ = ("prop", "oracle", "detail", "cause", "time", "seq")

    def __init__(self, prop, oracle, detail, cause=None, time=None, seq=None):
        self.prop, self.oracle, self.detail = prop, oracle, detail
        self.cause = cause or {}
        self.time, self.seq = time, seq

    def signature(self):
        return (self.prop, self.oracle)

    def to_json(self):
        return {"property": self.prop, "oracle": self.oracle, "detail": self.detail,
                "cause": self.cause, "time": self.time, "seq": self.seq}


class TaskShadow:
    __slots__ = ("task", "uname", "graph", "node", "base", "state", "hist", "release_time",
                 "start_time", "finish_time", "cancel_time", "strategy", "runtime", "worker",
                 "pool", "starts", "finishes", "placements", "released_obs", "deadline",
                 "chosen_time", "variance", "direct_changes", "first_release", "sched_count",
                 "removed_time", "deferred", "ever_deferred")

    def __init__(self, task):
        self.task = task
        self.uname = task.unique_name
        self.graph = task.task_graph
        self.node = task.name
        self.base = self.graph.split("@")[0]
        self.state = task.state.name
        self.hist = [(0, None, self.state, "init")]
        self.release_time = None
        self.first_release = None
        self.start_time = None
        self.finish_time = None
        self.cancel_time = None
        self.strategy = None
        self.runtime = None
        self.worker = None
        self.pool = None
        self.starts = 0
        self.finishes = 0
        self.placements = []
        self.released_obs = 0
        self.deadline = None
        self.chosen_time = None
        self.variance = 0
        self.direct_changes = 0
        self.sched_count = 0
        self.removed_time = None
        self.deferred = False
        self.ever_deferred = False


def _us(t):
    """EventTime -> integer microseconds without using EventTime arithmetic."""
    if t is None:
        return None
    u = t.unit.value
    return int(t.time * u) if u != 1 else t.time


def demand_of(strategy):
    """[(name, id, q)] of an execution strategy (public `Resources.resources`)."""
    out = []
    for res, q in strategy.resources.resources:
        out.append((res.name, res.id, q))
    return out


class WorkerLedger:
    """Integer reference ledger for one live worker."""

    def __init__(self, worker, pool):
        self.worker = worker
        self.pool = pool
        self.name = worker.name
        self.res_keys = []  # [(Resource obj, name, id, total)]
        self.total_by_type = {}
        self.total_by_id = {}
        for res, q in worker.resources.resources:
            self.res_keys.append((res, res.name, res.id, q))
            self.total_by_type[res.name] = self.total_by_type.get(res.name, 0) + q
            self.total_by_id[(res.name, res.id)] = q
        self.residents = {}  # id(task) -> (task, strategy)
        self.batches = {}  # id(batch strategy) -> [strategy, set(id(task))]
        self.profiles = {}  # id(profile) -> (profile, strategy)

    def demand_units(self):
        """yield (label, demand list) for every unit occupying the worker: a plain task, a
        batch (once), a loaded/pending profile."""
        for tid, (task, strat) in self.residents.items():
            if id(strat) in self.batches:
                continue
            yield ("task", task, demand_of(strat))
        for bid, (strat, members) in self.batches.items():
            if members:
                yield ("batch", strat, demand_of(strat))
        for pid, (prof, strat) in self.profiles.items():
            yield ("profile", prof, demand_of(strat))

    def used_by_type(self):
        used = {}
        for _, _, dem in self.demand_units():
            for name, rid, q in dem:
                used[name] = used.get(name, 0) + q
        return used

    def used_specific(self):
        used = {}
        for _, _, dem in self.demand_units():
            for name, rid, q in dem:
                if rid != "any":
                    used[(name, rid)] = used.get((name, rid), 0) + q
        return used

    def can_hold(self, strategy):
        """first-principles fit test; None when it cannot be decided by type alone."""
        if id(strategy) in self.batches and self.batches[id(strategy)][1]:
            return True
        used = self.used_by_type()
        for name, rid, q in demand_of(strategy):
            if rid != "any":
                return None
            if self.total_by_type.get(name, 0) - used.get(name, 0) < q:
                return False
        if self.used_specific():
            return None
        if getattr(self, "reloaded", False):
            # a profile was loaded again on this worker: whether the worker still charges the earlier
            # reservation is not known to the reference, so "it fits" cannot be asserted
            return None
        return True


class RunCtx:
    def __init__(self, world, built, props=None):
        self.world = world
        self.built = built
        self.props = props
        self.violations = []
        self._vio_keys = set()
        self.probes = {}
        self.faults = {}
        self.seq = 0
        self.now = 0  # time (us) of the last popped event
        self.clock = 0  # clock derived from step calls
        self.step_cur = 0
        self.history = []
        self.hist_cap = 4000
        self.shadows = {}  # id(task) -> TaskShadow
        self.by_key = {}  # (graph name, node name) -> TaskShadow
        self.ledgers = {}  # id(worker) -> WorkerLedger
        self.pool_of = {}
        self.mirror = []  # pending events (objects)
        self.live_queue = None
        self.iter_no_pop = 0
        self.same_clock_pops = 0
        self.iters = 0
        self.pops = 0
        self.iter_budget = 0
        self.pending_place = None
        self.same_us_types = []
        self.interleavings = set()
        self.last_pop_time = None
        self.ended = False
        self.end_time = None
        self.invocations = []
        self.sim = None
        self.policy_name = world["policy"]["name"]
        self.parents = {}
        self.children = {}
        self.nodes = {}
        for g in world["graphs"]:
            par = {n["name"]: [] for n in g["nodes"]}
            for n in g["nodes"]:
                for c in n["children"]:
                    par[c].append(n["name"])
            self.parents[g["name"]] = par
            self.children[g["name"]] = {n["name"]: list(n["children"]) for n in g["nodes"]}
            self.nodes[g["name"]] = {n["name"]: n for n in g["nodes"]}
        self.variance = world["flags"].get("runtime_variance", 0)
        self.extra_boundary = []  # callbacks(ctx) run at each boundary (per-property monitors)
        self.on_pop = []
        self.finish_obs = []
        for pool in built.worker_pools.worker_pools:
            for w in pool.workers:
                self.ledgers[id(w)] = WorkerLedger(w, pool)
                self.pool_of[id(w)] = pool
        # capacities are the *configured* ones (world spec), not what the live worker reports about itself
        spec_workers = {wk["name"]: wk for p_ in world["cluster"]["pools"] for wk in p_["workers"]}
        for led in self.ledgers.values():
            spec = spec_workers.get(led.name)
            if spec is None or len(spec["resources"]) != len(led.res_keys) or any(
                    x["name"] != k[1] for x, k in zip(spec["resources"], led.res_keys)):
                continue
            led.res_keys = [(k[0], k[1], k[2], x["q"]) for x, k in zip(spec["resources"], led.res_keys)]
            led.total_by_type = {}
            led.total_by_id = {}
            for (_res, name, rid, q) in led.res_keys:
                led.total_by_type[name] = led.total_by_type.get(name, 0) + q
                led.total_by_id[(name, rid)] = q
        for (w, prof, ls) in getattr(built, "preloaded", []):
            self.ledgers[id(w)].profiles[id(prof)] = (prof, ls)
        self.live_pools = {id(p): p for p in built.worker_pools.worker_pools}
        ntasks = sum(len(tg.get_nodes()) for tg in
                     (getattr(built, "full_workload", None) or built.workload).task_graphs.values())
        total = world["sim"]["loop_timeout"]
        self.iter_budget = min(400 * (ntasks + 10) + 60 * min(total, 100000) + 5000, 25000 + 300 * ntasks)
        self.zeno_limit = 1500 + 60 * ntasks

    # ------------------------------------------------------------------ recording
    def probe(self, name, n=1):
        self.probes[name] = self.probes.get(name, 0) + n

    def fault(self, name, n=1):
        self.faults[name] = self.faults.get(name, 0) + n

    def rec(self, kind, **payload):
        self.seq += 1
        if len(self.history) < self.hist_cap:
            self.history.append((self.seq, self.now, kind, payload))
        return self.seq

    def violate(self, prop, oracle, detail, cause=None):
        key = (prop, oracle)
        if key in self._vio_keys:
            return
        self._vio_keys.add(key)
        self.violations.append(Violation(prop, oracle, detail, cause, self.now, self.seq))
        self.rec("VIOLATION", prop=prop, oracle=oracle, detail=detail)

    # -------------------------------------------------------------------- shadows
    def shadow(self, task):
        s = self.shadows.get(id(task))
        if s is None:
            s = TaskShadow(task)
            s.deadline = _us(task.deadline)
            self.shadows[id(task)] = s
            self.by_key[(s.graph, s.node)] = s
        return s

    def all_live_tasks(self):
        for tg in list(self.built.workload.task_graphs.values()):
            for t in tg.get_nodes():
                yield t

    def parent_shadows(self, s):
        out = []
        for p in self.parents.get(s.base, {}).get(s.node, []):
            ps = self.by_key.get((s.graph, p))
            out.append((p, ps))
        return out

    def note_state(self, task, via, time=None):
        s = self.shadow(task)
        new = task.state.name
        if new != s.state:
            old = s.state
            s.state = new
            s.hist.append((self.seq, time if time is not None else self.now, new, via))
            self.rec("STATE", task=s.uname, frm=old, to=new, via=via)
            check_transition(self, s, old, new, via)
        return s


# =============================================================================
# State machine (C06)
# =============================================================================
ALLOWED = {
    ("VIRTUAL", "RELEASED"), ("VIRTUAL", "SCHEDULED"), ("RELEASED", "SCHEDULED"),
    ("SCHEDULED", "RUNNING"), ("RUNNING", "COMPLETED"),
    ("VIRTUAL", "CANCELLED"), ("RELEASED", "CANCELLED"), ("SCHEDULED", "CANCELLED"),
    ("SCHEDULED", "VIRTUAL"), ("SCHEDULED", "RELEASED"),
}


def check_transition(ctx, s, old, new, via):
    if old in ("COMPLETED", "CANCELLED"):
        ctx.violate("C06", "final_state_left", f"{s.uname}: {old}->{new} via {via}",
                    {"from": old, "to": new})
        return
    if (old, new) not in ALLOWED:
        ctx.violate("C06", "illegal_transition", f"{s.uname}: {old}->{new} via {via}",
                    {"from": old, "to": new})
        return
    if old == "SCHEDULED" and new in ("VIRTUAL", "RELEASED"):
        # fall back to the *earlier* state: the state it had before being scheduled,
        # or RELEASED if it was released meanwhile.
        prev = None
        for (_, _, st, _) in reversed(s.hist[:-1]):
            if st != "SCHEDULED":
                prev = st
                break
        # the statement allows "its earlier state": the state it was scheduled from; a task
        # that was released while SCHEDULED may also come back as RELEASED
        allowed = {prev} if prev is not None else {"VIRTUAL", "RELEASED"}
        if s.released_obs > 0:
            allowed.add("RELEASED")
        if new not in allowed:
            ctx.violate("C06", "fallback_wrong_state",
                        f"{s.uname}: SCHEDULED->{new}, its earlier state was {prev}", {"to": new})
        if s.released_obs > 0 and new == "VIRTUAL":
            ctx.probe("released_task_fell_back_to_virtual")
        ctx.probe("unscheduled")
    if new == "CANCELLED":
        ctx.probe("cancelled_from_" + old)


# =============================================================================
# Wrappers
# =============================================================================
def _wrap(cls, name, make):
    orig = getattr(cls, name)
    if getattr(orig, "_dst_wrapped", False):
        return
    new = make(orig)
    new._dst_wrapped = True
    new._dst_orig = orig
    new.__name__ = getattr(orig, "__name__", name)
    new.__doc__ = getattr(orig, "__doc__", None)
    setattr(cls, name, new)


def _safe(ctx, fn, *a):
    """run a harness callback; a failure inside harness code is a HarnessError."""
    try:
        return fn(ctx, *a)
    except (Livelock, StepBudget, HarnessError):
        raise
    except BaseException as e:  # noqa
        if type(e).__name__ in ("RunTimeout", "KeyboardInterrupt", "SystemExit"):
            raise  # the engine's per-run alarm fired while a callback was running: a timeout, not a bug
        raise HarnessError("".join(traceback.format_exception(type(e), e, e.__traceback__)[-6:]))


def install():
    global _INSTALLED
    if _INSTALLED:
        return
    env.bootstrap()
    from simulator import EventQueue
    from workers import Worker, WorkerPool
    from workload import Task

    # ---- EventQueue
    def mk_next(orig):
        def next(self):
            ctx = CURRENT
            if ctx is None or self is not ctx.live_queue:
                return orig(self)
            _safe(ctx, on_boundary)
            ev = orig(self)
            _safe(ctx, on_popped, ev)
            return ev
        return next

    def mk_add(orig):
        def add_event(self, event):
            ctx = CURRENT
            if ctx is not None:
                if ctx.live_queue is None and ctx.sim is None:
                    ctx.live_queue = self  # the first queue created in a run is the simulator's
                if self is ctx.live_queue:
                    ctx.mirror.append(event)
            return orig(self, event)
        return add_event

    def mk_remove(orig):
        def remove_event(self, event):
            ctx = CURRENT
            r = orig(self, event)
            if ctx is not None and self is ctx.live_queue:
                for i, e in enumerate(ctx.mirror):
                    if e is event:
                        del ctx.mirror[i]
                        break
                else:
                    ctx.violate("C16", "removed_unknown_event", "remove_event removed an event "
                                "the mirror does not hold", {})
                ctx.probe("event_removed")
            return r
        return remove_event

    def mk_reheap(orig):
        def reheapify(self):
            ctx = CURRENT
            if ctx is not None and self is ctx.live_queue:
                ctx.probe("reheapify")
            return orig(self)
        return reheapify

    def mk_peek(orig):
        def peek(self):
            ctx = CURRENT
            if ctx is not None and self is ctx.live_queue:
                _safe(ctx, on_iteration)
            return orig(self)
        return peek

    _wrap(EventQueue, "next", mk_next)
    _wrap(EventQueue, "add_event", mk_add)
    _wrap(EventQueue, "remove_event", mk_remove)
    _wrap(EventQueue, "reheapify", mk_reheap)
    _wrap(EventQueue, "peek", mk_peek)

    # ---- Worker
    def mk_wplace(orig):
        def place_task(self, task, execution_strategy):
            ctx = CURRENT
            led = ctx.ledgers.get(id(self)) if ctx is not None else None
            if led is None:
                return orig(self, task, execution_strategy)
            r = orig(self, task, execution_strategy)
            _safe(ctx, on_worker_place, led, task, execution_strategy)
            return r
        return place_task

    def mk_wremove(orig):
        def remove_task(self, current_time, task):
            ctx = CURRENT
            led = ctx.ledgers.get(id(self)) if ctx is not None else None
            if led is None:
                return orig(self, current_time, task)
            r = orig(self, current_time=current_time, task=task)
            _safe(ctx, on_worker_remove, led, task)
            return r
        return remove_task

    def mk_wload(orig):
        def load_profile(self, profile, loading_strategy):
            ctx = CURRENT
            led = ctx.ledgers.get(id(self)) if ctx is not None else None
            r = orig(self, profile, loading_strategy)
            if led is not None:
                if id(profile) in led.profiles:
                    # a resident / pending profile is loaded again: what it occupies from now on is the new
                    # strategy's demand (C01 uses that); whether the worker charges the old reservation on
                    # top is left open, so the allocated == demand equality is not asserted for this worker
                    led.reloaded = True
                    ctx.fault("profile_reloaded")
                led.profiles[id(profile)] = (profile, loading_strategy)
                # when the load will be complete by the *declared* loading time of the world spec (C15): the
                # worker's own countdown is part of the system under test
                spec_p = ctx.world.get("profiles", {}).get(profile.name) or {}
                lrt = [x["runtime"] for x in spec_p.get("loading", [])]
                if lrt and not getattr(led, "reloaded", False):
                    led.load_ready = getattr(led, "load_ready", {})
                    led.load_ready[id(profile)] = ctx.now + min(lrt)
                ctx.rec("LOAD", worker=led.name, profile=profile.name)
                ctx.probe("profile_loaded")
            return r
        return load_profile

    def mk_wevict(orig):
        def evict_profile(self, profile):
            ctx = CURRENT
            led = ctx.ledgers.get(id(self)) if ctx is not None else None
            r = orig(self, profile)
            if led is not None:
                led.profiles.pop(id(profile), None)
                getattr(led, "load_ready", {}).pop(id(profile), None)
                ctx.rec("EVICT", worker=led.name, profile=profile.name)
                ctx.probe("profile_evicted")
            return r
        return evict_profile

    _wrap(Worker, "place_task", mk_wplace)
    _wrap(Worker, "remove_task", mk_wremove)
    _wrap(Worker, "load_profile", mk_wload)
    _wrap(Worker, "evict_profile", mk_wevict)

    # ---- WorkerPool.step: the clock the workers see
    def mk_pstep(orig):
        def step(self, current_time, step_size=None):
            ctx = CURRENT
            if ctx is not None and id(self) in ctx.live_pools:
                _safe(ctx, on_pool_step, current_time, step_size)
            if step_size is None:
                return orig(self, current_time)
            return orig(self, current_time, step_size)
        return step

    _wrap(WorkerPool, "step", mk_pstep)

    # ---- Task lifecycle
    def mk_task(method):
        def maker(orig):
            def wrapped(self, *a, **kw):
                ctx = CURRENT
                if ctx is None:
                    return orig(self, *a, **kw)
                _safe(ctx, on_task_call_pre, method, self, a, kw)
                r = orig(self, *a, **kw)
                _safe(ctx, on_task_call_post, method, self, a, kw)
                return r
            return wrapped
        return maker

    for m in ("release", "schedule", "unschedule", "start", "finish", "cancel"):
        _wrap(Task, m, mk_task(m))
    _INSTALLED = True


# =============================================================================
# Callbacks
# =============================================================================
def on_iteration(ctx):
    ctx.iters += 1
    ctx.iter_no_pop += 1
    if ctx.iter_no_pop > 200:
        running = []
        for led in ctx.ledgers.values():
            for tid, (task, strat) in led.residents.items():
                running.append((task.unique_name, _us(task.remaining_time), _us(strat.runtime)))
        zero = any(rem == 0 for _, rem, _ in running)
        ctx.violate("C05", "livelock",
                    f"{ctx.iter_no_pop} loop iterations at t={ctx.clock} without handling an event; "
                    f"running={running[:4]}",
                    {"kind": "no_event_consumed", "running_task_with_zero_remaining": zero,
                     "zero_runtime_strategy": any(rt == 0 for _, _, rt in running)})
        raise Livelock()
    if ctx.iters > ctx.iter_budget:
        raise StepBudget()


def on_pool_step(ctx, current_time, step_size):
    cur = _us(current_time)
    st = _us(step_size) if step_size is not None else 1
    if st < 0:
        ctx.violate("C03", "negative_step", f"step of {st}us at {cur}", {})
    if cur < ctx.step_cur:
        ctx.violate("C03", "clock_backwards", f"workers stepped from {cur} after having been stepped from "
                    f"{ctx.step_cur}", {})
    ctx.step_cur = max(ctx.step_cur, cur)
    ctx.clock = max(ctx.clock, cur + max(st, 0))


def event_key(ev):
    t = ev.task
    return (_us(ev.time), ev.event_type.value, t.unique_name if t is not None else "")


def on_popped(ctx, ev):
    ctx.pops += 1
    ctx.iter_no_pop = 0
    et = ev.event_type.name
    t = _us(ev.time)
    # C16: the popped event is a minimum of the reference order
    found = False
    for i, e in enumerate(ctx.mirror):
        if e is ev:
            del ctx.mirror[i]
            found = True
            break
    if not found:
        ctx.violate("C16", "popped_unknown_event", f"{et}@{t} was never added", {})
    k = event_key(ev)
    for e in ctx.mirror:
        ke = event_key(e)
        if ke[:2] < k[:2] or (ke[:2] == k[:2] and e.task is not None and ev.task is not None
                                and ke[2] < k[2]):
            ctx.violate("C16", "pop_order",
                        f"popped {et}@{t} ({k[2]}) while {e.event_type.name}@{ke[0]} ({ke[2]}) "
                        f"was pending", {"popped": et, "pending": e.event_type.name})
            break
    # C03: time order / monotone clock
    if ctx.last_pop_time is not None and t < ctx.last_pop_time:
        ctx.violate("C03", "event_time_order", f"event {et}@{t} handled after an event at "
                    f"{ctx.last_pop_time}", {"event": et})
    if t < ctx.clock:
        ctx.violate("C03", "event_in_past", f"event {et}@{t} popped when the clock was {ctx.clock}",
                    {"event": et})
    if ctx.last_pop_time == t:
        ctx.same_us_types.append(ev.event_type.value)
        ctx.same_clock_pops += 1
        if ctx.same_clock_pops > ctx.zeno_limit:
            tail = [h[3].get("type") for h in ctx.history[-6:] if h[2] == "POP"]
            ctx.violate("C05", "livelock", f"more than {ctx.zeno_limit} events handled at t={t} (Zeno): "
                        f"...{tail}",
                        {"kind": "zeno", "scheduler_frequency": ctx.world["sim"]["scheduler_frequency"],
                         "run_at_worker_free": ctx.world["flags"]["scheduler_run_at_worker_free"],
                         "pending_placement": any(e.event_type.name == "TASK_PLACEMENT" for e in ctx.mirror)})
            raise Livelock()
    else:
        if len(ctx.same_us_types) > 1:
            ctx.interleavings.add(tuple(ctx.same_us_types))
        ctx.same_us_types = [ev.event_type.value]
        ctx.same_clock_pops = 0
    ctx.last_pop_time = t
    ctx.now = t
    ctx.rec("POP", type=et, task=ev.task.unique_name if ev.task is not None else None)
    if et == "TASK_PLACEMENT":
        prepare_placement_check(ctx, ev)
    elif et == "SIMULATOR_END":
        ctx.ended = True
        ctx.end_time = t
    for cb in ctx.on_pop:
        cb(ctx, ev)


def prepare_placement_check(ctx, ev):
    task = ev.task
    s = ctx.shadow(task)
    pl = ev.placement
    chosen = _us(pl.placement_time)
    info = {"shadow": s, "t": ctx.now, "chosen": chosen, "ready": None, "fits": None,
            "state": task.state.name}
    # predecessors done? (shadow view; join: any parent)
    par = ctx.parent_shadows(s)
    node = ctx.nodes.get(s.base, {}).get(s.node, {})
    done = [ps is not None and ps.finishes > 0 for _, ps in par]
    if not par:
        ready = True
    elif node.get("terminal"):
        ready = any(done)
    else:
        ready = all(done)
    info["ready"] = ready and task.state.name == "SCHEDULED"
    # can the chosen pool hold the chosen strategy?
    strat = pl.execution_strategy
    fits = False
    undecided = False
    pool = None
    for p in ctx.built.worker_pools.worker_pools:
        if p.id == pl.worker_pool_id:
            pool = p
    if pool is None or strat is None:
        info["fits"] = None
    else:
        for w in pool.workers:
            if pl.worker_id is not None and w.id != pl.worker_id:
                continue
            led = ctx.ledgers.get(id(w))
            if led is None:
                undecided = True
                continue
            r = led.can_hold(strat)
            if r is None:
                undecided = True
            elif r:
                fits = True
        info["fits"] = True if fits else (None if undecided else False)
    # tasks whose TASK_FINISHED is due at this very instant but still pending: a task that ends at t
    # has left its worker at t (half-open occupancy) and its children may start at t, so a placement
    # chosen for t must not be pushed back because of them
    info["fits_after_due"] = info["ready_after_due"] = None
    if ctx.now == chosen and (info["fits"] is False or not info["ready"]) and task.state.name == "SCHEDULED":
        due = {id(e.task) for e in ctx.mirror
               if getattr(e, "task", None) is not None and e.event_type.name == "TASK_FINISHED"
               and _us(e.time) == ctx.now}
        if not ctx.variance:
            # with exact runtimes a running task whose start + runtime is this very instant is due as well, even
            # if its TASK_FINISHED has not been produced yet (a zero-length task that started at this instant)
            for led_ in ctx.ledgers.values():
                for tid_, (rt_, rs_) in led_.residents.items():
                    sh_ = ctx.shadows.get(tid_)
                    if sh_ is not None and sh_.state == "RUNNING" and sh_.start_time is not None and \
                            sh_.start_time + _us(rs_.runtime) == ctx.now:
                        if tid_ not in due:
                            ctx.probe("c03_due_without_finish_event")
                        due.add(tid_)
        if due:
            done2 = [d or (ps is not None and id(ps.task) in due) for d, (_, ps) in zip(done, par)]
            info["ready_after_due"] = True if not par else (any(done2) if node.get("terminal") else all(done2))
            fits2 = None
            if pool is not None and strat is not None:
                fits2 = False
                for w in pool.workers:
                    if pl.worker_id is not None and w.id != pl.worker_id:
                        continue
                    led = ctx.ledgers.get(id(w))
                    if led is None or led.used_specific() or getattr(led, "reloaded", False) or \
                            any(rid != "any" for _, rid, _ in demand_of(strat)):
                        fits2 = None
                        break
                    used = dict(led.used_by_type())
                    for tid, (rt_, rs_) in led.residents.items():
                        if tid in due and id(rs_) not in led.batches:
                            for name, rid, q in demand_of(rs_):
                                used[name] = used.get(name, 0) - q
                    if all(led.total_by_type.get(name, 0) - used.get(name, 0) >= q
                           for name, rid, q in demand_of(strat)):
                        fits2 = True
            info["fits_after_due"] = fits2
    ctx.pending_place = info


def on_boundary(ctx):
    """previous event has been handled completely"""
    pp = ctx.pending_place
    if pp is not None:
        ctx.pending_place = None
        s = pp["shadow"]
        started_now = s.starts > 0 and s.start_time == pp["t"]
        if pp["t"] == pp["chosen"] and pp["ready"] and pp["fits"] is True and not started_now \
                and s.state not in ("CANCELLED",):
            ctx.violate("C03", "not_started_when_ready",
                        f"{s.uname}: placement event at its chosen time {pp['t']} with predecessors "
                        f"done and the pool able to hold the strategy, but it did not start "
                        f"(state {s.state})", {"state": s.state})
        if not started_now and pp["t"] == pp["chosen"] and pp["state"] == "SCHEDULED" \
                and s.state not in ("CANCELLED",) and pp.get("ready_after_due") \
                and (pp["fits"] is True or pp.get("fits_after_due") is True) \
                and not (pp["ready"] and pp["fits"] is True):
            ctx.violate("C03", "deferred_behind_same_instant_finish",
                        f"{s.uname}: chosen to start at {pp['t']}; the only obstacles were tasks whose "
                        f"TASK_FINISHED is due at {pp['t']} as well, but the placement was handled first and "
                        f"pushed back", {"ready_before": bool(pp["ready"]), "fits_before": pp["fits"]})
        if not started_now:
            s.deferred = True
            s.ever_deferred = True
            if pp["fits"] is False:
                ctx.fault("worker_not_ready_justified")
            elif pp["ready"] is False:
                ctx.fault("task_not_ready_justified")
        elif pp["t"] == pp["chosen"]:
            ctx.probe("started_at_chosen_time")
        else:
            ctx.probe("started_after_deferral")
    scan_states(ctx)
    check_ledgers(ctx)
    for cb in ctx.extra_boundary:
        cb(ctx)


def scan_states(ctx):
    resident = None
    for t in ctx.all_live_tasks():
        s = ctx.shadows.get(id(t))
        if s is None:
            s = ctx.shadow(t)
            continue
        if t.state.name != s.state:
            s.direct_changes += 1
            ctx.note_state(t, "direct")
        if s.state == "RUNNING":
            if resident is None:
                resident = set()
                for led in ctx.ledgers.values():
                    resident.update(led.residents)
            if id(t) not in resident:
                ctx.violate("C03", "running_without_resources",
                            f"{s.uname} is RUNNING at t={ctx.now} but holds no worker", {})


def check_ledgers(ctx):
    from workload import Resource

    any_resident = False
    seen_tasks = {}
    for led in ctx.ledgers.values():
        w = led.worker
        used = led.used_by_type()
        # C01: reference ledger by type, and per specific id
        for name, u in used.items():
            if u > led.total_by_type.get(name, 0):
                ctx.violate("C01", "oversubscribed",
                            f"worker {led.name}: demand {u} of {name} > capacity "
                            f"{led.total_by_type.get(name, 0)} at t={ctx.now}; "
                            f"units={[(k, getattr(o, 'unique_name', getattr(o, 'name', '?'))) for k, o, _ in led.demand_units()]}",
                            {"resource": name})
        for (name, rid), u in led.used_specific().items():
            if u > led.total_by_id.get((name, rid), 0):
                ctx.violate("C01", "oversubscribed_id", f"worker {led.name}: {name}:{rid} demand {u} > "
                            f"{led.total_by_id.get((name, rid), 0)}", {"resource": name})
        if led.residents:
            any_resident = True
        for tid, (task, _) in led.residents.items():
            if tid in seen_tasks and seen_tasks[tid] is not led:
                ctx.violate("C01", "task_on_two_workers", f"{task.unique_name} resident on "
                            f"{seen_tasks[tid].name} and {led.name}", {})
            seen_tasks[tid] = led
        # the worker's own getters
        placed = w.get_placed_tasks()
        if set(id(t) for t in placed) != set(led.residents):
            ctx.violate("C04", "resident_set_mismatch",
                        f"worker {led.name}: get_placed_tasks()={[t.unique_name for t in placed]} but "
                        f"observed place/remove calls leave {[t.unique_name for t, _ in led.residents.values()]}",
                        {})
        alloc_by_type = {}
        for res, name, rid, total in led.res_keys:
            avail = w.resources.get_available_quantity(res)
            if avail < 0 or avail > total:
                ctx.violate("C01" if avail < 0 else "C04", "available_out_of_range",
                            f"worker {led.name}: {name}:{rid} available {avail} of {total}",
                            {"resource": name})
            alloc_by_type[name] = alloc_by_type.get(name, 0) + (total - avail)
            holders = w.resources.get_allocated_computation(res)
            hq = sum(q for _, q in holders)
            if hq != total - avail:
                ctx.violate("C04", "allocation_records_disagree",
                            f"worker {led.name}: {name}:{rid} total {total} available {avail} but "
                            f"allocation records sum to {hq}", {"resource": name})
        for name in led.total_by_type:
            a = alloc_by_type.get(name, 0)
            if a > led.total_by_type[name]:
                ctx.violate("C01", "allocated_exceeds_total", f"worker {led.name}: {name}", {"resource": name})
            if a != used.get(name, 0) and not (getattr(led, "reloaded", False) and a > used.get(name, 0)):
                ctx.violate("C04", "held_iff_resident",
                            f"worker {led.name}: {a} of {name} allocated but resident tasks/batches/"
                            f"profiles demand {used.get(name, 0)} at t={ctx.now}",
                            {"resource": name, "more_allocated": a > used.get(name, 0)})
    if not any_resident:
        ctx.probe("idle_boundary")
        for led in ctx.ledgers.values():
            used = led.used_by_type()  # only profiles can remain
            for name, tot in led.total_by_type.items():
                avail = led.worker.resources.get_available_quantity(Resource(name=name, _id="any"))
                if avail != tot - used.get(name, 0) and not (getattr(led, "reloaded", False)
                                                             and avail < tot - used.get(name, 0)):
                    ctx.violate("C04", "idle_not_full_capacity",
                                f"no task running but worker {led.name} has {avail}/{tot} of {name} free",
                                {"resource": name})


def on_worker_place(ctx, led, task, strategy):
    from workload import BatchStrategy

    s = ctx.shadow(task)
    ctx.rec("WPLACE", worker=led.name, task=s.uname, rt=_us(strategy.runtime))
    if id(task) in led.residents:
        ctx.violate("C01", "placed_twice_on_worker", f"{s.uname} placed on {led.name} while resident", {})
    for other in ctx.ledgers.values():
        if other is not led and id(task) in other.residents:
            ctx.violate("C01", "task_on_two_workers", f"{s.uname} placed on {led.name} while resident on "
                        f"{other.name}", {})
    # the strategy the worker is charged for must be the one the task was scheduled with (and will run, be
    # timed and be logged under): a worker that admits the task under another of its strategies reserves
    # the wrong quantities for it
    cp = getattr(task, "current_placement", None)
    chosen = cp.execution_strategy if cp is not None else None
    if chosen is not None and chosen is not strategy:
        sig = lambda st: (tuple(sorted(demand_of(st))), _us(st.runtime), st.batch_size)  # noqa
        if sig(chosen) != sig(strategy):
            ctx.violate("C01", "charged_for_another_strategy",
                        f"{s.uname} was scheduled with strategy {sig(chosen)} but worker {led.name} was charged "
                        f"for {sig(strategy)}", {"smaller": sum(q for _, _, q in demand_of(strategy)) <
                                                 sum(q for _, _, q in demand_of(chosen))})
            strategy_for_ledger = chosen
        ctx.probe("c01_placed_strategy_compared")
    led.residents[id(task)] = (task, strategy)
    if isinstance(strategy, BatchStrategy):
        b = led.batches.setdefault(id(strategy), [strategy, set()])
        b[1].add(id(task))
        if len(b[1]) > 1:
            ctx.probe("batch_gt1")
    s.strategy = strategy
    s.runtime = _us(strategy.runtime)
    s.worker = led.name
    s.pool = led.pool.name


def on_worker_remove(ctx, led, task):
    s = ctx.shadow(task)
    ctx.rec("WREMOVE", worker=led.name, task=s.uname)
    s.removed_time = ctx.now
    ent = led.residents.pop(id(task), None)
    if ent is None:
        ctx.violate("C04", "removed_non_resident", f"{s.uname} removed from {led.name} where it was "
                    f"not resident", {})
        return
    strat = ent[1]
    b = led.batches.get(id(strat))
    if b is not None:
        b[1].discard(id(task))
        if not b[1]:
            del led.batches[id(strat)]


def _is_batch_placeholder(task):
    return task.name.startswith("BatchFor")


def on_task_call_pre(ctx, method, task, a, kw):
    if _is_batch_placeholder(task) and id(task) not in ctx.shadows:
        return
    s = ctx.shadow(task)
    if method == "start":
        time = kw.get("time", a[0] if a else None)
        t = _us(time)
        check_start(ctx, s, task, t)
    elif method == "finish":
        pass


def on_task_call_post(ctx, method, task, a, kw):
    if _is_batch_placeholder(task) and id(task) not in ctx.shadows:
        return
    s = ctx.shadow(task)
    time = kw.get("time", a[0] if a else None)
    t = _us(time) if time is not None and hasattr(time, "unit") else None
    if method == "release":
        s.released_obs += 1
        s.release_time = _us(task.release_time)
        if s.first_release is None:
            s.first_release = s.release_time
        ctx.rec("RELEASE", task=s.uname, t=s.release_time)
        if s.released_obs > 1:
            ctx.probe("released_twice")
    elif method == "unschedule":
        # a retracted / skipped plan must leave the SCHEDULED state (back to the state the task was scheduled
        # from); a call that returns with the task still SCHEDULED is invisible to the state-diff above
        if task.state.name == "SCHEDULED":
            ctx.violate("C06", "unschedule_left_task_scheduled",
                        f"{s.uname}: Task.unschedule() returned with the task still SCHEDULED (scheduled "
                        f"{s.sched_count} time(s) before)", {"rescheduled_before": s.sched_count > 1})
    elif method == "schedule":
        pl = kw.get("placement", a[1] if len(a) > 1 else None)
        s.sched_count += 1
        s.deferred = False
        if pl is not None:
            s.chosen_time = _us(pl.placement_time)
            s.placements.append((t, s.chosen_time))
            ctx.rec("SCHEDULE", task=s.uname, at=s.chosen_time)
            if s.chosen_time is not None and t is not None and s.chosen_time > t:
                ctx.probe("scheduled_for_future")
            if s.sched_count > 1:
                ctx.probe("rescheduled")
    elif method == "start":
        s.starts += 1
        s.start_time = t
        s.variance = kw.get("variance", a[1] if len(a) > 1 else 0) or 0
        ctx.rec("START", task=s.uname, t=t)
        ctx.probe("task_started")
    elif method == "finish":
        s.finishes += 1
        s.finish_time = ctx.now
        ctx.rec("FINISH", task=s.uname, t=ctx.now)
        check_finish(ctx, s, task)
    elif method == "cancel":
        s.cancel_time = t
        ctx.rec("CANCEL", task=s.uname, t=t)
    ctx.note_state(task, method, t)


def check_start(ctx, s, task, t):
    """C02 (release / predecessors / at most once), C03 (not before the chosen time)."""
    if s.starts > 0:
        ctx.violate("C02", "started_twice", f"{s.uname} started again at {t} (first at {s.start_time})", {})
    rel = _us(task.release_time)
    if s.released_obs == 0:
        ctx.violate("C02", "started_unreleased", f"{s.uname} started at {t} without ever being released "
                    f"(state {task.state.name})", {})
    elif rel is not None and rel >= 0 and t < rel:
        ctx.violate("C02", "started_before_release", f"{s.uname} started at {t}, release time {rel}", {})
    elif s.first_release is not None and t < s.first_release:
        ctx.violate("C02", "started_before_release", f"{s.uname} started at {t}, released at "
                    f"{s.first_release}", {})
    # the release time the task was created with (Task.release() overwrites `release_time` with the time
    # it is called with, so a release that comes too early would otherwise hide itself)
    irt = _us(getattr(task, "intended_release_time", None))
    if irt is not None and irt >= 0:
        ctx.probe("c02_intended_release_checked")
        if t < irt:
            ctx.violate("C02", "started_before_release",
                        f"{s.uname} started at {t}, before the release time {irt} it was created with "
                        f"(released at {s.first_release})", {"intended": True})
    par = ctx.parent_shadows(s)
    node = ctx.nodes.get(s.base, {}).get(s.node, {})
    if par:
        done = [(p, ps is not None and ps.finishes > 0 and ps.state == "COMPLETED") for p, ps in par]
        if node.get("terminal"):
            ok = any(d for _, d in done)
            if ok:
                ctx.probe("join_started_after_one_parent")
        else:
            ok = all(d for _, d in done)
        if not ok:
            ctx.violate("C02", "started_before_predecessors",
                        f"{s.uname} started at {t}; predecessors done={done}",
                        {"terminal": bool(node.get("terminal"))})
        elif node.get("terminal"):
            # "... for the join node of a conditional, the one branch that was taken": the completed parent must
            # be the one through which the taken branch feeds the join, not a node of a branch that should not
            # have run at all
            try:
                _check_join_branch(ctx, s, t, par)
            except HarnessError:
                raise
            except Exception:
                pass
    if s.chosen_time is not None and t < s.chosen_time:
        ctx.violate("C03", "started_before_chosen_time",
                    f"{s.uname} started at {t}, scheduler chose {s.chosen_time}", {})
    if s.chosen_time is None:
        ctx.violate("C03", "started_without_decision", f"{s.uname} started at {t} with no scheduling "
                    f"decision observed", {})


def _check_join_branch(ctx, s, t, par):
    from . import oracles

    choices = getattr(ctx, "cond_choices", {})
    for (graph, cnode), ch in choices.items():
        if graph != s.graph or oracles.matching_terminal(ctx, s.base, cnode) != s.node:
            continue
        rel_, dfr_ = ch.get("released") or [], ch.get("deferred") or []
        taken = rel_[0] if len(rel_) == 1 else (dfr_[0] if not rel_ and len(dfr_) == 1 else None)
        if taken is None:
            continue
        if taken == s.node:
            continue  # the empty branch was taken: the conditional itself feeds the join
        taken_nodes = set(oracles.branch_nodes(ctx, s.base, taken, s.node)) | {taken}
        feeders = [(p, ps) for p, ps in par if p in taken_nodes]
        if not feeders:
            continue
        if not all(ps is not None and ps.finishes > 0 and ps.state == "COMPLETED" for _, ps in feeders):
            ctx.violate("C02", "join_started_before_taken_branch",
                        f"{s.uname} started at {t}; conditional {cnode} took {taken}, whose feeder(s) "
                        f"{[p for p, _ in feeders]} have not completed (completed parents: "
                        f"{[p for p, ps in par if ps is not None and ps.state == 'COMPLETED']})", {})


def check_finish(ctx, s, task):
    """C02 (at most once) and C03 (exact runtime)."""
    if s.finishes > 1:
        ctx.violate("C02", "finished_twice", f"{s.uname} finished twice", {})
    if s.starts == 0 or s.start_time is None:
        ctx.violate("C02", "finished_without_start", f"{s.uname} finished without starting", {})
        return
    if s.runtime is None:
        return
    lo = s.start_time + s.runtime
    v = s.variance or 0
    hi = s.start_time + s.runtime + -(-s.runtime * v // 100) if v else lo
    ft = ctx.now
    if not (lo <= ft <= hi):
        ctx.violate("C03", "wrong_duration",
                    f"{s.uname}: started {s.start_time}, strategy runtime {s.runtime}, variance {v}% "
                    f"-> must finish in [{lo},{hi}], finished at {ft}",
                    {"early": ft < lo, "variance": v})
    ct = _us(task.completion_time)
    if ct is not None and ct != ft:
        ctx.violate("C03", "completion_time_mismatch",
                    f"{s.uname}: completion_time {ct} but the finish was handled at {ft}", {})
    if s.removed_time != ft:
        ctx.violate("C03", "resources_not_held_until_finish",
                    f"{s.uname}: resources released at {s.removed_time}, finish at {ft}", {})
    if s.runtime == 0:
        ctx.probe("zero_runtime_task_finished")
    # the task must have held its resources until now: it was resident on its worker
    # when the finish began (the simulator removes it just before calling finish()).
    for cb in ctx.finish_obs:
        cb(ctx, s, task)


# =============================================================================
def begin(ctx):
    global CURRENT
    install()
    CURRENT = ctx
    for t in ctx.all_live_tasks():
        ctx.shadow(t)


def end():
    global CURRENT
    CURRENT = None
