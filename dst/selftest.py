"""Self tests of the harness itself.

selftest-determinism : every run profile is executed for many seeds twice (different order,
    different worker counts) and in fresh interpreters (pinned hash seed and another
    PYTHONHASHSEED); the SHA-256 of (CSV rows + full monitor history) must be identical.
selftest-sensitivity : the catalogue of planted bugs in selftest/mutants/*.patch is applied one by
    one to a scratch copy of /repo (outside /repo and /verif, removed afterwards) and the quick
    tier of the named property must report a VIOLATION against the copy (ERDOS_REPO=<copy>).
"""
import concurrent.futures as cf
import json
import multiprocessing as mp
import os
import shutil
import subprocess
import sys
import tempfile
import time

from . import env

STREAMS = None


def _streams():
    from . import props

    return {
        "greedy": props.G, "greedy_ties": props.G_TIES, "greedy_cond": props.G_COND, "chaos": props.CH,
        "chaos_cond": props.CH_COND, "plan": props.PLAN, "clockwork": props.CW,
        "lib04": props.L04, "lib16": props.L16, "cli19": {"kind": "cli19", "profile": "loader"},
        "greedy_z3probe": props.G_Z3, "greedy_preemptprobe": props.G_PRE, "greedy_side": props.G_SIDE,
        "chaos_side": props.CH_SIDE, "plan_f0": props.PLAN_F0, "plan_ilp_goodput": props.PLAN_ILP_GOODPUT,
        "greedy_dyn": props.G_DYN, "chaos_dyn": props.CH_DYN, "cplex_batch": props.CW_CPLEX_BATCH,
        "greedy_loader": props.G_LOADER, "greedy_side_heavy": props.G_SIDE_HEAVY, "greedy_stagger": props.G_STAGGER,
        "chaos_side2": props.CH_SIDE2, "greedy_cond_out": props.G_COND_OUT, "greedy_ids": props.G_IDS,
        "clockwork_slo": props.CW_SLO, "greedy_z3_inf": props.G_Z3_INF,
    }


def digest_one(args):
    name, seed = args
    from . import props

    st = _streams()[name]
    r = props.any_run("SELFTEST", seed, st)
    import hashlib

    if "digest" in r:
        return name, seed, r["digest"]
    blob = json.dumps({"v": r["violations"], "p": r["probes"], "f": r.get("fingerprint"),
                       "s": r.get("stats")}, sort_keys=True, default=str)
    return name, seed, hashlib.sha256(blob.encode()).hexdigest()


def compute(names, seeds, jobs, reverse=False):
    work = [(n, s) for n in names for s in seeds]
    if reverse:
        work = work[::-1]
    out = {}
    ctx = mp.get_context("fork")
    with cf.ProcessPoolExecutor(max_workers=jobs, mp_context=ctx) as ex:
        for n, s, d in ex.map(digest_one, work, chunksize=4):
            out[(n, s)] = d
    return out


def determinism(a):
    env.bootstrap()
    names = list(_streams())
    n = a.runs or 300
    seeds = [1000 + 7 * i for i in range(n)]
    t0 = time.time()
    d1 = compute(names, seeds, 16)
    d2 = compute(names, seeds, 5, reverse=True)
    bad = [k for k in d1 if d1[k] != d2.get(k)]
    print(f"in-process, 16 workers vs 5 workers reversed order: {len(d1)} digests, {len(bad)} differ")
    for k in bad[:10]:
        print("  DIFF", k)
    # fresh interpreters
    sub_seeds = seeds[:: max(1, n // 60)]
    rc = 0
    for label, extra in (("fresh interpreter, PYTHONHASHSEED=0", {"PYTHONHASHSEED": "0"}),
                         ("fresh interpreter, PYTHONHASHSEED=4242 (re-exec disabled)",
                          {"PYTHONHASHSEED": "4242", "DST_NO_REEXEC": "1"})):
        e = dict(os.environ)
        e.update(extra)
        cmd = [sys.executable, os.path.join(env.VERIF, "check"), "selftest-digests", "--runs", str(len(sub_seeds)),
               "--seed", str(sub_seeds[0]), "--jobs", str(max(1, n // 60))]
        p = subprocess.run(cmd, capture_output=True, text=True, env=e, cwd=env.VERIF, timeout=3000)
        got = {}
        for line in p.stdout.splitlines():
            if line.startswith("DIGEST "):
                _, nm, sd, dg = line.split()
                got[(nm, int(sd))] = dg
        diff = [k for k in got if got[k] != d1.get(k)]
        print(f"{label}: {len(got)} digests, {len(diff)} differ from the in-process ones")
        for k in diff[:10]:
            print("  DIFF", k)
        if diff or not got:
            bad.extend(diff or [("no-output", 0)])
    print(f"selftest-determinism: {'FAILED' if bad else 'ok'} ({time.time() - t0:.0f}s)")
    return 1 if bad else 0


def digests(a):
    """helper for the fresh-interpreter comparison: prints DIGEST lines"""
    env.bootstrap()
    names = list(_streams())
    step = a.jobs or 1
    seeds = [a.seed + 7 * step * i for i in range(a.runs or 10)]
    d = compute(names, seeds, 8)
    for (n, s), dg in sorted(d.items()):
        print("DIGEST", n, s, dg)
    return 0


# ------------------------------------------------------------------ sensitivity
def sensitivity(a):
    mdir = os.path.join(env.VERIF, "selftest", "mutants")
    cat = []
    if os.path.exists(os.path.join(mdir, "catalogue.json")):
        for m in json.load(open(os.path.join(mdir, "catalogue.json"))):
            m["patch"] = os.path.join(mdir, m["patch"])
            cat.append(m)
    sdir = os.path.join(env.VERIF, "seeded")
    for d in sorted(os.listdir(sdir)) if os.path.isdir(sdir) else []:
        mp = os.path.join(sdir, d, "meta.json")
        if os.path.exists(mp):
            meta = json.load(open(mp))
            if meta.get("not_caught"):
                print(f"({d}: skipped, recorded as not caught: {meta.get('why_not_caught', '')[:120]}...)", flush=True)
                continue
            if meta.get("obsolete"):
                print(f"({d}: skipped, neutralised by a later fix: commit in meta.json)", flush=True)
                continue
            cat.append({"id": d, "patch": os.path.join(sdir, d, "patch.diff"),
                        "properties": [meta["property"]], "what": (meta.get("summary") or "")[:120]})
    only = os.environ.get("MUTANTS")
    results = []
    for m in cat:
        if only and m["id"] not in only.split(","):
            continue
        tmp = tempfile.mkdtemp(prefix="erdos-verif-mutant-")
        try:
            dst = os.path.join(tmp, "repo")
            subprocess.run(["rsync", "-a", "--exclude", ".git", env.REPO + "/", dst + "/"], check=True)
            p = subprocess.run(["patch", "-p1", "-s", "-i", m["patch"]], cwd=dst,
                               capture_output=True, text=True)
            if p.returncode != 0:
                results.append((m["id"], "PATCH-FAILED", p.stdout[-200:] + p.stderr[-200:]))
                print(results[-1], flush=True)
                continue
            caught = []
            for prop in m["properties"]:
                e = dict(os.environ)
                e["ERDOS_REPO"] = dst
                cmd = [sys.executable, os.path.join(env.VERIF, "check"), prop, "--tier", "quick", "--no-shrink"]
                if m.get("runs"):
                    cmd += ["--runs", str(m["runs"])]
                q = subprocess.run(cmd, capture_output=True, text=True, env=e, cwd=env.VERIF, timeout=3000)
                if q.returncode == 1 and "VIOLATION property=" + prop in q.stdout:
                    caught.append(prop)
            results.append((m["id"], "caught by " + ",".join(caught) if caught else "MISSED", m["what"]))
        finally:
            shutil.rmtree(tmp, ignore_errors=True)
        print(results[-1], flush=True)
    missed = [r for r in results if not r[1].startswith("caught")]
    print(f"selftest-sensitivity: {len(results) - len(missed)}/{len(results)} planted bugs caught")
    return 1 if missed else 0


def main(name, a):
    if name == "selftest-determinism":
        return determinism(a)
    if name == "selftest-digests":
        return digests(a)
    if name == "selftest-sensitivity":
        return sensitivity(a)
    print("unknown selftest", name)
    return 2
