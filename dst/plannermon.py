"""C11 / C14 / C15 monitors for the planning policies (filled in per policy)."""


def check(ctx, sched, now, task_pl, plist, offered, placements):
    return
