"""C11 (precedence), C14 (maximality / goodput) and C15 (Clockwork batches) monitors for the
planning policies, evaluated on every real invocation of a driven run (and on the extra
solver-choice probes)."""
from . import monitor
from .monitor import _us, demand_of

DAG_AWARE = ("ILP", "TetriSchedGurobi")


def check(ctx, sched, now, task_pl, plist, offered, placements, probe=False):
    name = ctx.policy_name
    if name in DAG_AWARE:
        monitor._safe(ctx, check_c11, sched, now, task_pl)
    if name in ("TetriSchedGurobi", "TetriSchedCPLEX") and not probe and not ctx.solver_chaos_active:
        monitor._safe(ctx, check_c14_maximal, sched, now, task_pl, offered)
    if name == "ILP" and not probe and not ctx.solver_chaos_active:
        from . import goodput

        monitor._safe(ctx, goodput.check_c14_ilp, sched, now, task_pl, offered)
    if name == "Clockwork":
        from . import clockmon

        monitor._safe(ctx, clockmon.check_c15, sched, now, task_pl, plist)


# ----------------------------------------------------------------------------- C11
def check_c11(ctx, sched, now, task_pl):
    name = ctx.policy_name
    dec = {id(p.task): p for p in task_pl}
    for p in task_pl:
        if p.placement_type.name != "PLACE_TASK" or not p.is_placed():
            continue
        t = p.task
        s = ctx.shadow(t)
        node = ctx.nodes.get(s.base, {}).get(s.node, {})
        start = _us(p.placement_time)
        for pname, ps in ctx.parent_shadows(s):
            if ps is None:
                continue
            pt = ps.task
            st = pt.state.name
            if st in ("COMPLETED", "CANCELLED"):
                continue
            q = dec.get(id(pt))
            if q is not None and q.placement_type.name == "PLACE_TASK":
                ctx.probe("c11_parent_and_child_codecided")
                if not q.is_placed():
                    if not node.get("terminal"):
                        ctx.violate("C11", "child_placed_without_parent",
                                    f"{name} at t={now}: {t.unique_name} placed at {start} while its predecessor "
                                    f"{pt.unique_name}, decided in the same invocation, is left unplaced",
                                    {"policy": name})
                    continue
                pstart = _us(q.placement_time)
                prt = _us(q.execution_strategy.runtime) if q.execution_strategy is not None else 0
                if start < pstart + prt:
                    ctx.violate("C11", "child_before_parent_end",
                                f"{name} at t={now}: {t.unique_name} starts at {start}, its predecessor "
                                f"{pt.unique_name} is placed at {pstart} with runtime {prt} (ends {pstart + prt})",
                                {"policy": name, "gap": pstart + prt - start})
                elif start == pstart + prt:
                    ctx.probe("c11_back_to_back")
            elif q is not None and q.placement_type.name == "CANCEL_TASK":
                ctx.violate("C11", "child_placed_with_cancelled_parent",
                            f"{name} at t={now}: {t.unique_name} placed while {pt.unique_name} is cancelled in the "
                            f"same invocation", {"policy": name})
            elif st == "RUNNING":
                fin = now + _us(pt.remaining_time)
                if ctx.variance and ps.start_time is not None and ps.runtime is not None:
                    # "planned or actual finish": an overrun drawn from --runtime_variance is not part
                    # of any plan, so only the planned finish (start + strategy runtime) binds
                    planned = ps.start_time + ps.runtime
                    if planned < fin:
                        ctx.probe("c11_running_parent_hidden_overrun")
                        fin = planned
                ctx.probe("c11_running_parent")
                if start < fin:
                    ctx.violate("C11", "child_before_running_parent_end",
                                f"{name} at t={now}: {t.unique_name} starts at {start}, running predecessor "
                                f"{pt.unique_name} is expected to finish at {fin}", {"policy": name})
            elif st == "SCHEDULED":
                cp = pt.current_placement
                if cp is None or cp.execution_strategy is None or ps.deferred:
                    continue
                fin = _us(cp.placement_time) + _us(cp.execution_strategy.runtime)
                ctx.probe("c11_scheduled_parent")
                if start < fin:
                    ctx.violate("C11", "child_before_scheduled_parent_end",
                                f"{name} at t={now}: {t.unique_name} starts at {start}, scheduled predecessor "
                                f"{pt.unique_name} is expected to finish at {fin}", {"policy": name})


# ----------------------------------------------------------------------------- C14 (TetriSched)
def check_c14_maximal(ctx, sched, now, task_pl, offered):
    """for every offered task left unplaced no (slot, worker, strategy) exists at which it could be
    added to the returned plan without breaking capacity, release, precedence or deadline limits
    (slot conventions of the planners: starts on the grid now + k*d <= now + plan_ahead; a task placed
    at t with runtime r occupies the grid instants g with t <= g < t + r; a running task occupies from
    now for the runtime of its strategy; a child starts at least 1us after its predecessor's worst-case
    end)."""
    name = ctx.policy_name
    pol = ctx.world["policy"]
    d = max(1, pol.get("discretization", 1))
    plan_ahead = pol.get("plan_ahead", 10)
    grid = list(range(now, now + plan_ahead + 1, d))
    enforce = bool(pol.get("enforce_deadlines"))
    dag = name == "TetriSchedGurobi"
    unplaced = [p for p in task_pl if p.placement_type.name == "PLACE_TASK" and not p.is_placed()]
    if not unplaced or len(offered) > 4:
        return
    workers = []
    for pool in ctx.built.worker_pools.worker_pools:
        for w in pool.workers:
            workers.append(w)
    if len(workers) > 2:
        return
    ctx.probe("c14_maximality_checked")
    # occupancy of the returned plan per worker: list of (start, runtime, demand)
    occ = {id(w): [] for w in workers}
    placed_info = {}
    dec = {id(p.task): p for p in task_pl}
    for led in ctx.ledgers.values():
        for tid, (task, strat) in led.residents.items():
            occ[id(led.worker)].append((now, _us(strat.runtime), demand_of(strat)))
            placed_info[id(task)] = (now, _us(task.remaining_time), "running")
    for p in task_pl:
        if p.placement_type.name == "PLACE_TASK" and p.is_placed() and p.execution_strategy is not None:
            for w in workers:
                if w.id == p.worker_id:
                    occ[id(w)].append((_us(p.placement_time), _us(p.execution_strategy.runtime),
                                       demand_of(p.execution_strategy)))
            slow = max(_us(x.runtime) for x in p.task.available_execution_strategies)
            placed_info[id(p.task)] = (_us(p.placement_time), slow, "placed")
    # scheduled tasks that were not re-decided keep their slot
    for t in ctx.all_live_tasks():
        if t.state.name == "SCHEDULED" and id(t) not in dec:
            cp = t.current_placement
            if cp is None or cp.execution_strategy is None or cp.worker_id is None:
                return
            for w in workers:
                if w.id == cp.worker_id:
                    occ[id(w)].append((_us(cp.placement_time), _us(cp.execution_strategy.runtime),
                                       demand_of(cp.execution_strategy)))
            slow = max(_us(x.runtime) for x in t.available_execution_strategies)
            placed_info[id(t)] = (_us(cp.placement_time), slow, "scheduled")
    totals = {id(led.worker): led.total_by_type for led in ctx.ledgers.values()}

    def fits(w, t0, rt, dem):
        if rt == 0:
            return True
        for g in grid:
            if not (t0 <= g < t0 + rt):
                continue
            use = {}
            for (a, r, dm) in occ[id(w)]:
                if a <= g < a + r:
                    for n, _, q in dm:
                        use[n] = use.get(n, 0) + q
            for n, _, q in dem:
                if use.get(n, 0) + q > totals[id(w)].get(n, 0):
                    return False
        return True

    for p in unplaced:
        t = p.task
        s = ctx.shadow(t)
        rel = _us(t.release_time)
        dl = _us(t.deadline)
        # precedence lower bound
        lb = now
        blocked = False
        if dag:
            for pname, ps in ctx.parent_shadows(s):
                if ps is None or ps.task.state.name in ("COMPLETED", "CANCELLED"):
                    continue
                info = placed_info.get(id(ps.task))
                if info is None:
                    blocked = True  # an unfinished predecessor without a slot: cannot be ordered after it
                    break
                lb = max(lb, info[0] + info[1] + 1)
        else:
            pass
        if blocked:
            continue
        for st in t.available_execution_strategies:
            rt = _us(st.runtime)
            dem = demand_of(st)
            if any(rid != "any" for _, rid, _ in dem):
                continue
            for w in workers:
                tot = totals[id(w)]
                if any(tot.get(n, 0) < q for n, _, q in dem):
                    continue
                for t0 in grid:
                    if t0 < lb or (rel is not None and rel >= 0 and t0 < rel):
                        continue
                    if enforce and t0 + rt > dl:
                        continue
                    if fits(w, t0, rt, dem):
                        if _within_mip_gap(ctx, t0, grid):
                            ctx.probe("c14_within_mip_gap")
                            continue
                        ctx.violate("C14", "plan_not_maximal",
                                    f"{name} at t={now}: offered task {t.unique_name} is left unplaced although it "
                                    f"can be added at slot {t0} on worker {w.name} with strategy runtime {rt} "
                                    f"demand {dem} (grid step {d}, plan_ahead {plan_ahead}, enforce={enforce}) "
                                    f"without breaking capacity, release, precedence or deadline; plan="
                                    f"{[(q.task.unique_name, _us(q.placement_time) if q.is_placed() else None, _us(q.execution_strategy.runtime) if q.is_placed() and q.execution_strategy else None) for q in task_pl if q.placement_type.name == 'PLACE_TASK']} "
                                    f"occupancy={[(a, r) for w_ in workers for (a, r, _) in occ[id(w_)]]}",
                                    {"policy": name, "state": t.state.name,
                                     "empty_plan": not any(q.placement_type.name == "PLACE_TASK" and q.is_placed()
                                                           for q in task_pl),
                                     "pinned_scheduled_tasks": (not pol.get("retract")) and any(
                                         x.state.name == "SCHEDULED" for x in ctx.all_live_tasks()),
                                     "release_taskgraphs": bool(pol.get("release_taskgraphs")),
                                     "lookahead": pol.get("lookahead", 0) > 0,
                                     "coarse_grid": d > 1, "offered": len(offered),
                                     "has_unfinished_parent": any(ps is not None and ps.task.state.name not in
                                                                  ("COMPLETED", "CANCELLED")
                                                                  for _, ps in ctx.parent_shadows(s)),
                                     "zero_runtime": rt == 0,
                                     "unplaced_task_is_sink": not ctx.children.get(s.base, {}).get(s.node)})
                        return


def _within_mip_gap(ctx, t0, grid):
    """TetriSched-Gurobi stops at a relative MIP gap of 10 %: a placement whose reward (2 at the first grid slot,
    falling linearly to 1 at the last) is no more than that share of the incumbent objective may legitimately be
    left out -- the solver's documented stopping rule, not a property violation (false alarm at VERIF_SEED=7)."""
    if ctx.policy_name != "TetriSchedGurobi":
        return False
    from . import policies

    obj = policies.LAST_SOLVE.get("obj")
    gap = policies.LAST_SOLVE.get("gap_param") or 0.0
    if obj is None or gap <= 0:
        return False
    span = grid[-1] - grid[0]
    reward = 2.0 if span <= 0 else 2.0 - (t0 - grid[0]) / span
    return reward <= gap * abs(obj) + 1e-9

