"""Execute one world under the monitors and return a JSON-serialisable result."""
import hashlib
import traceback

from . import build, env, monitor, oracles


def _repo_frame(tb):
    """innermost frame that lies in /repo (function name + file) -> crash fingerprint"""
    last = None
    for fs in traceback.extract_tb(tb):
        if fs.filename.startswith(env.REPO):
            last = fs
    if last is None:
        return "outside-repo"
    return f"{last.filename[len(env.REPO) + 1:]}:{last.name}"


def run_world(world, collect_rows=False, extra_setup=None):
    env.bootstrap()
    env.reset_run(world["seed"], world.get("faults", {}).get("clock", "jitter"))
    res = {"seed": world["seed"], "outcome": None, "violations": [], "probes": {}, "faults": {},
           "stats": {}, "error": None}
    ctx = None
    try:
        b = build.build_world(world)
    except monitor.HarnessError:
        raise
    except Exception as e:  # the builder refused the world
        res["outcome"] = "build_error"
        res["error"] = f"{type(e).__name__}: {e}"[:400]
        res["error_tb"] = traceback.format_exc()[-1500:]
        return res
    ctx = monitor.RunCtx(world, b)
    oracles.attach(ctx)
    if extra_setup:
        extra_setup(ctx)
    monitor.begin(ctx)
    crash = None
    try:
        try:
            sim = build.make_simulator(b)
            ctx.sim = sim
            sim.simulate()
            res["outcome"] = "ended"
        except monitor.Livelock:
            res["outcome"] = "livelock"
        except monitor.StepBudget:
            res["outcome"] = "step_budget"
        except monitor.HarnessError as e:
            res["outcome"] = "harness_error"
            res["error"] = str(e)[-1500:]
        except Exception as e:  # crash inside the system under test
            res["outcome"] = "env_limit" if getattr(ctx, "env_limit", None) else "crash"
            crash = e
            res["error"] = f"{type(e).__name__}: {e}"[:300]
            res["crash_site"] = _repo_frame(e.__traceback__)
            res["error_tb"] = traceback.format_exc()[-1200:]
    finally:
        monitor.end()
    rows = list(env.CSV_ROWS)
    try:
        if res["outcome"] in ("ended", "crash", "livelock"):
            oracles.post_run(ctx, rows, res)
    except monitor.HarnessError as e:
        res["outcome"] = "harness_error"
        res["error"] = str(e)[-1500:]
    except Exception:
        res["outcome"] = "harness_error"
        res["error"] = traceback.format_exc()[-1500:]
    res["violations"] = [v.to_json() for v in ctx.violations]
    res["probes"] = dict(ctx.probes)
    res["faults"] = dict(ctx.faults)
    if getattr(b.loader, "deliveries", 0):
        # F4: workload delivered in windows by a cumulative loader (first delivery not counted as a fault)
        res["faults"]["late_workload_deliveries"] = b.loader.deliveries - 1
        res["faults"]["workload_update_calls"] = b.loader.calls
    for k, v in getattr(b.scheduler, "stats", {}).items():
        res["faults"]["chaos_" + k] = v
    started = sum(1 for s in ctx.shadows.values() if s.starts)
    res["stats"] = {
        "sim_time_us": ctx.now, "pops": ctx.pops, "iters": ctx.iters,
        "tasks": len(ctx.shadows), "started": started,
        "finished": sum(1 for s in ctx.shadows.values() if s.finishes),
        "cancelled": sum(1 for s in ctx.shadows.values() if s.state == "CANCELLED"),
        "invocations": len(ctx.invocations),
        "interleavings": [hashlib.md5(repr(x).encode()).hexdigest()[:10] for x in ctx.interleavings],
        "rows": len(rows),
    }
    res["digest"] = digest_rows(rows, ctx)
    res["trace_tail"] = [list(h[:3]) + [h[3]] for h in ctx.history[-50:]]
    if collect_rows:
        res["rows"] = rows
    res["fingerprint"] = fingerprint(world, res)
    return res


def digest_rows(rows, ctx):
    h = hashlib.sha256()
    for r in rows:
        if ",SCHEDULER_FINISHED," in r:
            # the last column is the measured (fake) wall-clock duration: solver callbacks poll the
            # clock a timing-dependent number of times, so it is masked like C09 masks it
            r = r.rsplit(",", 1)[0]
        h.update(r.encode())
        h.update(b"\n")
    for rec in ctx.history:
        h.update(repr(rec).encode())
    return h.hexdigest()


def fingerprint(world, res):
    """world-shape x fault-mix x outcome fingerprint used to count distinct cases"""
    shapes = tuple(sorted((g["shape"], len(g["nodes"]), g["release"]["type"],
                           any(n.get("conditional") for n in g["nodes"])) for g in world["graphs"]))
    cl = tuple(len(p["workers"]) for p in world["cluster"]["pools"])
    pol = world["policy"]
    fl = world["flags"]
    key = (shapes, cl, len(world["cluster"]["types"]), pol["name"], pol.get("enforce_deadlines", False),
           fl["runtime_variance"] > 0, fl["drop_skipped_tasks"], fl["scheduler_run_at_worker_free"],
           world["sim"]["scheduler_frequency"], fl["scheduler_delay"], bool(world["faults"].get("cut")),
           res["outcome"], tuple(sorted(k for k, v in res["probes"].items() if v)),
           tuple(sorted(k for k, v in res["faults"].items() if v)))
    return hashlib.md5(repr(key).encode()).hexdigest()[:16]
