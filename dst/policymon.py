"""Monitors around every real `schedule()` call: C10 (complete / feasible / side-effect
free), C11 (precedence), C12 (deadline enforcement), C13 (greedy priority order),
C15 (Clockwork batches).  The oracles use the harness' own reference ledger and the
world spec, never the policy's internal model.
"""
import random

from . import monitor
from .monitor import _us, demand_of

GREEDY = ("EDF", "FIFO", "LSF")
PLANNERS = ("ILP", "TetriSchedGurobi", "TetriSchedCPLEX")
ENV_LIMIT_MARKERS = ("Model too large for size-limited license", "size-limited", "CPLEX Error  1016",
                     "Promotional version", "problem size limits", "harness solver wall-clock limit")


class Inconclusive(Exception):
    pass


def snapshot(ctx):
    """deep snapshot of the observable cluster and task state (C10: no side effects)"""
    cl = []
    for led in ctx.ledgers.values():
        w = led.worker
        cl.append((led.name,
                   tuple(w.resources.get_available_quantity(res) for res, _, _, _ in led.res_keys),
                   tuple(sorted(id(t) for t in w.get_placed_tasks())),
                   tuple(sorted(p.name for p in w.get_available_profiles())),
                   tuple(sorted(p.name for p in w.get_pending_profiles()))))
    for p in ctx.built.worker_pools.worker_pools:
        cl.append((p.name, tuple(sorted(id(t) for t in p.get_placed_tasks()))))
    ts = []
    for t in ctx.all_live_tasks():
        ts.append((t.unique_name, t.state.name, _us(t.release_time), _us(t.start_time),
                   _us(t.deadline), _us(t.remaining_time) if t.state.name != "VIRTUAL" or True else None,
                   id(t.current_placement) if t.current_placement is not None else None,
                   t.worker_pool_id, t.probability))
    return cl, ts


def strategy_sig(st):
    return (tuple(sorted(demand_of(st))), _us(st.runtime), st.batch_size)


def observed_schedule(ctx, sched, orig, sim_time, workload, worker_pools):
    now = _us(sim_time)
    name = ctx.policy_name
    before = snapshot(ctx)
    ctx.last_offer = None
    rec = {"t": now, "policy": name}
    chaos = ctx.world.get("faults", {}).get("solver_chaos") or {}
    ctx.solver_chaos_active = False
    if chaos.get("on") and name in PLANNERS:
        from . import policies

        inv_no = len(ctx.invocations)
        rng = random.Random(f"{ctx.world['seed']}:solver:{inv_no}")
        if rng.random() < chaos.get("p", 0.7):
            ctx.solver_chaos_active = True
            policies.arm_solver_chaos(ctx, rng)
    try:
        try:
            placements = orig(sim_time, workload, worker_pools)
        finally:
            if ctx.solver_chaos_active:
                from . import policies

                policies.disarm_solver_chaos()
    except Exception as e:  # noqa
        msg = f"{type(e).__name__}: {e}"
        if any(m in msg for m in ENV_LIMIT_MARKERS):
            ctx.env_limit = msg[:200]
            raise
        if name not in ("Chaos", "WC"):
            import traceback

            site = "?"
            from . import env as _env

            for fs in traceback.extract_tb(e.__traceback__):
                if fs.filename.startswith(_env.REPO):
                    site = f"{fs.filename[len(_env.REPO) + 1:]}:{fs.name}"
            ctx.violate("C10", "schedule_raised", f"{name}.schedule() at t={now} raised {msg[:200]} ({site})",
                        {"exc": type(e).__name__, "site": site, "policy": name})
        raise
    after = snapshot(ctx)
    if before != after:
        diff = _first_diff(before, after)
        ctx.violate("C10", "side_effect", f"{name}.schedule() at t={now} changed live state: {diff}",
                    {"policy": name})
    offer = ctx.last_offer
    rec["offered"] = len(offer[1]) if offer else None
    plist = list(placements)
    rec["n_place"] = sum(1 for p in plist if p.placement_type.name == "PLACE_TASK" and p.is_placed())
    rec["n_unplaced"] = sum(1 for p in plist if p.placement_type.name == "PLACE_TASK" and not p.is_placed())
    rec["n_cancel"] = sum(1 for p in plist if p.placement_type.name == "CANCEL_TASK")
    rec["runtime"] = _us(placements.runtime)
    ctx.invocations.append(rec)
    if name not in ("Chaos", "WC"):
        monitor._safe(ctx, check_decision, sched, now, plist, offer, placements)
    else:
        for p in plist:
            if p.placement_type.name == "CANCEL_TASK":
                ctx.policy_cancelled[p.task.task_graph] = True
    for p in plist:
        if p.placement_type.name == "CANCEL_TASK":
            ctx.policy_cancelled[p.task.task_graph] = True
            ctx.fault("policy_cancel")
    from . import z3probe

    z3probe.maybe_probe(ctx, sim_time, workload, worker_pools)
    from . import preemptprobe

    preemptprobe.maybe_probe(ctx, sim_time, workload, worker_pools)
    return placements


def _first_diff(a, b):
    for x, y in zip(a[0], b[0]):
        if x != y:
            return f"cluster {x} -> {y}"
    for x, y in zip(a[1], b[1]):
        if x != y:
            return f"task {x} -> {y}"
    return "length changed"


# =============================================================================
def check_decision(ctx, sched, now, plist, offer, placements):
    name = ctx.policy_name
    world = ctx.world
    pools = {p.id: p for p in ctx.built.worker_pools.worker_pools}
    offered = offer[1] if offer else {}
    opts = offer[2] if offer else {}
    decided = {}
    task_pl = [p for p in plist if p.placement_type.name in ("PLACE_TASK", "CANCEL_TASK")]
    ctx.probe("invocation_checked")
    if task_pl:
        ctx.probe("invocation_with_decisions")
    for p in task_pl:
        t = p.task
        if id(t) in decided:
            ctx.violate("C10", "two_decisions_for_task", f"{name} at t={now}: two decisions for "
                        f"{t.unique_name}", {"policy": name})
        decided[id(t)] = p
        st = t.state.name
        s = ctx.shadow(t)
        if id(t) not in offered and not (st == "SCHEDULED" and s.sched_count > 0) and \
                not _clockwork_queued(ctx, sched, t):
            ctx.violate("C10", "decision_for_unoffered_task",
                        f"{name} at t={now}: decision for {t.unique_name} (state {st}) which was not offered",
                        {"policy": name, "state": st})
        if st in ("RUNNING", "COMPLETED", "CANCELLED", "EVICTED") and not sched.preemptive:
            ctx.violate("C10", "decision_for_started_task",
                        f"{name} at t={now}: decision for {t.unique_name} in state {st}",
                        {"policy": name, "state": st})
    if name in GREEDY + PLANNERS:
        for tid, t in offered.items():
            if t.state.name in ("VIRTUAL", "RELEASED") and tid not in decided:
                ctx.violate("C10", "offered_task_unanswered",
                            f"{name} at t={now}: offered {t.unique_name} ({t.state.name}) got no decision",
                            {"policy": name})
    # per placement
    placed = []
    for p in task_pl:
        if p.placement_type.name != "PLACE_TASK" or not p.is_placed():
            continue
        t = p.task
        pool = pools.get(p.worker_pool_id)
        if pool is None:
            ctx.violate("C10", "unknown_pool", f"{name}: {t.unique_name} placed on unknown pool "
                        f"{p.worker_pool_id}", {"policy": name})
            continue
        worker = None
        if p.worker_id is not None:
            for w in pool.workers:
                if w.id == p.worker_id:
                    worker = w
            if worker is None:
                ctx.violate("C10", "worker_not_in_pool", f"{name}: {t.unique_name} placed on worker "
                            f"{p.worker_id} which is not in pool {pool.name}", {"policy": name})
                continue
        st = p.execution_strategy
        if st is not None:
            sigs = [strategy_sig(x) for x in t.available_execution_strategies]
            if strategy_sig(st) not in sigs:
                ctx.violate("C10", "foreign_strategy", f"{name}: {t.unique_name} placed with strategy "
                            f"{strategy_sig(st)} not among its own {sigs}", {"policy": name})
        pt = _us(p.placement_time)
        if pt is None or pt < now:
            ctx.violate("C10", "placement_in_past", f"{name} at t={now}: {t.unique_name} placed at {pt}",
                        {"policy": name})
        rel = _us(t.release_time)
        if rel is not None and rel >= 0 and pt is not None and pt < rel:
            ctx.violate("C10", "placement_before_release", f"{name} at t={now}: {t.unique_name} placed at "
                        f"{pt}, release {rel}", {"policy": name})
        placed.append((t, p, pool, worker, st, pt))
    monitor._safe(ctx, check_joint_feasibility, now, placed, decided)
    monitor._safe(ctx, check_c12, sched, now, task_pl, offered)
    if name in GREEDY:
        monitor._safe(ctx, check_c13, sched, now, task_pl)
    from . import plannermon

    plannermon.check(ctx, sched, now, task_pl, plist, offered, placements)


def _clockwork_queued(ctx, sched, t):
    return ctx.policy_name == "Clockwork"


# ----------------------------------------------------------------------------- C10 feasibility
def check_joint_feasibility(ctx, now, placed, decided):
    """all placements together with already running / scheduled tasks never exceed any worker's
    capacity at any planned instant (reference timeline per worker, half-open intervals)."""
    if not placed:
        return
    # fixed occupancy: running tasks (on their real worker) and scheduled-ahead tasks that were not
    # re-decided in this invocation
    fixed = {}  # id(worker) -> [(start, end, demand, label)]
    batches_seen = set()
    for led in ctx.ledgers.values():
        lst = fixed.setdefault(id(led.worker), [])
        for kind, obj, dem in led.demand_units():
            if kind == "task":
                lst.append((now, _planned_end(ctx, obj, now), dem, obj.unique_name))
            elif kind == "batch":
                members = [t for t, st in led.residents.values() if st is obj]
                end = max([_planned_end(ctx, t, now) for t in members] or [now])
                lst.append((now, end, dem, "batch"))
            else:
                lst.append((now, 1 << 60, dem, "profile"))
    floating = []  # tasks without a worker: (start, end, demand, pool, label)
    pinned = []
    kept = set()  # scheduled-ahead tasks that keep their earlier placement (not re-decided now)
    for t in ctx.all_live_tasks():
        if t.state.name == "SCHEDULED" and id(t) not in decided:
            cp = t.current_placement
            if cp is None or cp.execution_strategy is None:
                continue
            pt = _us(cp.placement_time)
            if pt is None:
                continue
            if pt < now or ctx.shadow(t).deferred:
                # its planned instant has passed (start deferred by WORKER_NOT_READY /
                # TASK_NOT_READY): it has no planned occupancy any more
                ctx.probe("c10_deferred_scheduled_task_ignored")
                continue
            end = max(pt, now) + _us(cp.execution_strategy.runtime)
            item = (max(pt, now), end, demand_of(cp.execution_strategy), t.unique_name)
            pool = None
            for p in ctx.built.worker_pools.worker_pools:
                if p.id == cp.worker_pool_id:
                    pool = p
            if pool is None:
                continue
            kept.add(t.unique_name)
            _add_item(item, pool, cp.worker_id, cp.execution_strategy, pinned, floating, batches_seen)
    retract = bool(ctx.world["policy"].get("retract", False))
    for (t, p, pool, worker, st, pt) in placed:
        if st is None or pt is None:
            continue
        item = (pt, pt + _us(st.runtime), demand_of(st), t.unique_name)
        _add_item(item, pool, p.worker_id, st, pinned, floating, batches_seen)
    for (wid, item) in pinned:
        fixed.setdefault(wid, []).append(item)
    # check pinned timelines
    totals = {id(led.worker): led for led in ctx.ledgers.values()}
    for wid, items in fixed.items():
        led = totals.get(wid)
        if led is None:
            continue
        bad = _overload(items, led.total_by_type)
        if bad and not floating:
            # only blame the policy if one of *its* placements is part of the overload
            names = {x[0].unique_name for x in placed}
            if any(lbl in names for lbl in bad[2]):
                ctx.violate("C10", "plan_exceeds_capacity",
                            f"{ctx.policy_name} at t={now}: worker {led.name} holds {bad[2]} at t={bad[0]} "
                            f"needing {bad[1]} > capacity {led.total_by_type}",
                            {"policy": ctx.policy_name, "pinned": True, "retract": retract,
                             "kept_scheduled_task_involved": any(lbl in kept for lbl in bad[2])})
                return
    if floating:
        ok = _assign(floating, fixed, totals, ctx)
        if ok is False:
            ctx.violate("C10", "plan_exceeds_capacity",
                        f"{ctx.policy_name} at t={now}: no assignment of "
                        f"{[f[3] for f in floating]} to the workers of their pools fits next to the "
                        f"running/scheduled tasks", {"policy": ctx.policy_name, "pinned": False})
        elif ok is None:
            ctx.probe("c10_feasibility_search_cut")


def _planned_end(ctx, task, now):
    """until when a RUNNING task is known to occupy its worker: exactly now+remaining with exact
    runtimes; under runtime variance the overrun is hidden from every policy, so only the planned end
    (start + strategy runtime, but at least the present instant) counts as a planned instant"""
    if not ctx.variance:
        return now + _us(task.remaining_time)
    s = ctx.shadow(task)
    if s.start_time is None or s.runtime is None:
        return now + 1
    return max(s.start_time + s.runtime, now + 1)


def _add_item(item, pool, worker_id, st, pinned, floating, batches_seen):
    from workload import BatchStrategy

    if isinstance(st, BatchStrategy):
        if id(st) in batches_seen:
            return
        batches_seen.add(id(st))
    if worker_id is not None:
        for w in pool.workers:
            if w.id == worker_id:
                pinned.append((id(w), item))
                return
        return
    if len(pool.workers) == 1:
        pinned.append((id(pool.workers[0]), item))
    else:
        floating.append((item[0], item[1], item[2], item[3], pool))


def _overload(items, total_by_type):
    """first instant at which summed demand exceeds capacity; items are half-open intervals"""
    points = sorted({it[0] for it in items})
    for pt in points:
        use = {}
        who = []
        for (a, b, dem, lbl) in items:
            if a <= pt < b:
                who.append(lbl)
                for name, rid, q in dem:
                    use[name] = use.get(name, 0) + q
        for name, u in use.items():
            if u > total_by_type.get(name, 0):
                return (pt, {name: u}, who)
    return None


def _assign(floating, fixed, totals, ctx, budget=20000):
    """exact search: put each floating item on some worker of its pool"""
    floating = sorted(floating, key=lambda f: (f[0], f[3]))
    cnt = [0]
    cur = {wid: list(items) for wid, items in fixed.items()}

    def rec(i):
        cnt[0] += 1
        if cnt[0] > budget:
            raise Inconclusive()
        if i == len(floating):
            return True
        a, b, dem, lbl, pool = floating[i]
        for w in pool.workers:
            led = totals.get(id(w))
            if led is None:
                continue
            cur.setdefault(id(w), []).append((a, b, dem, lbl))
            if _overload(cur[id(w)], led.total_by_type) is None and rec(i + 1):
                return True
            cur[id(w)].pop()
        return False

    try:
        return rec(0)
    except Inconclusive:
        return None


# ----------------------------------------------------------------------------- C12 (greedy part)
def check_c12(ctx, sched, now, task_pl, offered):
    if not getattr(sched, "enforce_deadlines", False):
        return
    name = ctx.policy_name
    for p in task_pl:
        t = p.task
        fastest = min(_us(st.runtime) for st in t.available_execution_strategies)
        dl = _us(t.deadline)
        hopeless = dl < now + fastest
        if hopeless and _c12_applies(ctx, sched):
            ctx.probe("c12_hopeless_task")
            if p.placement_type.name == "PLACE_TASK" and p.is_placed():
                ctx.violate("C12", "hopeless_task_placed",
                            f"{name} at t={now}: {t.unique_name} deadline {dl} < now+fastest "
                            f"{now + fastest} but placed", {"policy": name})
            elif name in ("EDF", "FIFO", "Clockwork", "TetriSchedCPLEX") and \
                    p.placement_type.name != "CANCEL_TASK":
                ctx.violate("C12", "hopeless_task_not_cancelled",
                            f"{name} at t={now}: {t.unique_name} deadline {dl} < now+fastest "
                            f"{now + fastest} answered with {p.placement_type.name} (unplaced) instead of "
                            f"a cancellation", {"policy": name})
        else:
            if dl == now + fastest:
                ctx.probe("c12_exactly_tight")
        if p.placement_type.name == "PLACE_TASK" and p.is_placed() and name in \
                ("ILP", "TetriSchedGurobi", "TetriSchedCPLEX", "Clockwork") and p.execution_strategy is not None:
            end = _us(p.placement_time) + _us(p.execution_strategy.runtime)
            if end > dl and _c12_applies(ctx, sched):
                ctx.violate("C12", "planned_past_deadline",
                            f"{name} at t={now}: {t.unique_name} start {_us(p.placement_time)} + runtime "
                            f"{_us(p.execution_strategy.runtime)} = {end} > deadline {dl}", {"policy": name})
    # a hopeless offered task that got no decision at all is C10's business; nothing here


def _c12_applies(ctx, sched):
    if ctx.policy_name == "ILP" and getattr(sched, "release_taskgraphs", False):
        return False
    return True


# ----------------------------------------------------------------------------- C13
def check_c13(ctx, sched, now, task_pl):
    pools = list(ctx.built.worker_pools.worker_pools)
    if any(len(p.workers) != 1 for p in pools):
        return
    name = ctx.policy_name
    if name == "EDF":
        key = lambda t: _us(t.deadline)  # noqa
    elif name == "FIFO":
        key = lambda t: _us(t.release_time)  # noqa
    else:
        key = lambda t: _us(t.deadline) - now - _us(t.remaining_time)  # noqa
    decisions = [p for p in task_pl if p.placement_type.name == "PLACE_TASK"]
    if len(decisions) < 2:
        return
    free0 = {}
    for p in pools:
        led = ctx.ledgers[id(p.workers[0])]
        used = led.used_by_type()
        if led.used_specific():
            return
        free0[p.id] = {n: led.total_by_type[n] - used.get(n, 0) for n in led.total_by_type}
    ctx.probe("c13_invocation_checked")
    placed = [(key(p.task), p) for p in decisions if p.is_placed()]
    for p in decisions:
        if p.is_placed():
            continue
        k = key(p.task)
        free = {pid: dict(v) for pid, v in free0.items()}
        for kk, q in placed:
            if kk <= k and q.execution_strategy is not None:
                for n, rid, amount in demand_of(q.execution_strategy):
                    free[q.worker_pool_id][n] = free[q.worker_pool_id].get(n, 0) - amount
        ctx.probe("c13_unplaced_task_checked")
        for st in p.task.available_execution_strategies:
            dem = demand_of(st)
            if any(rid != "any" for _, rid, _ in dem):
                continue
            for pid, f in free.items():
                if all(f.get(n, 0) >= amount for n, _, amount in dem):
                    lower = [q.task.unique_name for kk, q in placed if kk > k]
                    ctx.violate("C13", "priority_inversion",
                                f"{name} at t={now}: {p.task.unique_name} (key {k}) left unplaced although "
                                f"strategy {strategy_sig(st)} fits pool {pid[:8]} once the placed tasks of "
                                f"higher or equal priority are accounted for; lower-priority placed: {lower}",
                                {"policy": name, "lower_priority_placed": bool(lower)})
                    return
