"""Preemptive shadow probe (C13): EDF and LSF have a preemptive mode in which RUNNING tasks are offered
again next to the released ones and the cluster is re-planned from empty.  No bundled configuration of
the simulator drives that mode end-to-end here, so -- like the Z3 probe -- the preemptive variant of the
policy is invoked on the live state of a greedy-driven run (where partially executed tasks exist, i.e.
`remaining_time` < full runtime), its answer is checked against C13's reference and discarded.  The
global `random` state is restored afterwards and the live state must be unchanged."""
import random

from . import monitor
from .monitor import _us, demand_of


def maybe_probe(ctx, sim_time, workload, worker_pools):
    if ctx.policy_name not in ("EDF", "FIFO", "LSF"):
        return
    if not ctx.world.get("faults", {}).get("preempt_probe"):
        return
    pools = list(ctx.built.worker_pools.worker_pools)
    if any(len(p.workers) != 1 for p in pools):
        return
    n = len(ctx.invocations)
    from utils import EventTime

    from schedulers import EDFScheduler, LSFScheduler

    from . import policymon

    now = _us(sim_time)
    st = random.getstate()
    ctx.in_probe = True
    try:
        for name, cls in (("LSF", LSFScheduler), ("EDF", EDFScheduler)):
            if (n + (name == "EDF")) % 2:
                continue
            sched = cls(preemptive=True, runtime=EventTime.zero(), _flags=ctx.built.flags)
            offer = workload.get_schedulable_tasks(time=sim_time, preemption=True, worker_pools=worker_pools)
            if len({id(t) for t in offer}) != len(offer):
                ctx.violate("C18", "duplicate_in_offer",
                            f"with preemption enabled a task is offered more than once at t={now}: "
                            f"{sorted(t.unique_name for t in offer)}", {"preemption": True})
            live_running = [t for t in ctx.all_live_tasks() if t.state.name == "RUNNING"]
            missing = [t.unique_name for t in live_running if not any(o is t for o in offer)]
            if missing:
                ctx.violate("C18", "running_task_not_offered_under_preemption",
                            f"with preemption enabled the running tasks {missing} are missing from the offer at "
                            f"t={now}", {"preemption": True})
            if len(offer) < 2:
                continue
            running = [t for t in offer if t.state.name == "RUNNING"]
            before = policymon.snapshot(ctx)
            try:
                placements = list(sched.schedule(sim_time, workload, worker_pools))
            except Exception as e:  # noqa
                ctx.violate("C10", "schedule_raised",
                            f"preemptive {name}.schedule() at t={now} raised {type(e).__name__}: {str(e)[:200]} "
                            f"(shadow probe on a state driven by {ctx.policy_name})",
                            {"policy": name + "-preemptive", "exc": type(e).__name__})
                continue
            after = policymon.snapshot(ctx)
            ctx.probe("preempt_probe")
            if running:
                ctx.probe("preempt_probe_with_running_task")
                if any(_us(t.remaining_time) < max(_us(s.runtime) for s in t.available_execution_strategies)
                       for t in running):
                    ctx.probe("preempt_probe_partially_executed_task")
            if before != after:
                ctx.violate("C10", "side_effect", f"preemptive {name}.schedule() at t={now} changed live state: "
                            f"{policymon._first_diff(before, after)}", {"policy": name + "-preemptive"})
            monitor._safe(ctx, check, name, now, placements, pools)
    finally:
        ctx.in_probe = False
        random.setstate(st)


def check(ctx, name, now, plist, pools):
    """C13 on a cluster re-planned from empty: an unplaced task must not fit next to the placed tasks of
    higher or equal priority"""
    if name == "EDF":
        key = lambda t: _us(t.deadline)  # noqa
    else:
        key = lambda t: _us(t.deadline) - now - _us(t.remaining_time)  # noqa
    free0 = {}
    for p in pools:
        led = ctx.ledgers[id(p.workers[0])]
        free0[p.id] = dict(led.total_by_type)
    decisions = [p for p in plist if p.placement_type.name == "PLACE_TASK"]
    if len({id(p.task) for p in decisions}) != len(decisions):
        ctx.probe("preempt_probe_duplicate_decisions")
    placed = [(key(p.task), p) for p in decisions if p.is_placed()]
    for p in decisions:
        if p.is_placed():
            continue
        k = key(p.task)
        free = {pid: dict(v) for pid, v in free0.items()}
        for kk, q in placed:
            if kk <= k and q.execution_strategy is not None:
                for nme, rid, amount in demand_of(q.execution_strategy):
                    free[q.worker_pool_id][nme] = free[q.worker_pool_id].get(nme, 0) - amount
        ctx.probe("c13_preemptive_unplaced_task_checked")
        for st in p.task.available_execution_strategies:
            dem = demand_of(st)
            if any(rid != "any" for _, rid, _ in dem):
                continue
            for pid, f in free.items():
                if all(f.get(nme, 0) >= amount for nme, _, amount in dem):
                    lower = [(q.task.unique_name, kk) for kk, q in placed if kk > k]
                    ctx.violate("C13", "priority_inversion",
                                f"preemptive {name} at t={now}: {p.task.unique_name} (key {k}, state "
                                f"{p.task.state.name}) left unplaced although a strategy fits pool {pid[:8]} once the "
                                f"placed tasks of higher or equal priority are accounted for; lower-priority "
                                f"placed: {lower}",
                                {"policy": name + "-preemptive", "lower_priority_placed": bool(lower)})
                    return
