"""C14 (ILP half): exhaustive tiny reference planner (filled in later)."""


def check_c14_ilp(ctx, sched, now, task_pl, offered):
    return
