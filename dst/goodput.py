"""C14 (ILP half): exhaustive tiny reference planner for the ILP policy with the goodput goal.

The reference is an independent transcription of the ILP's *own* decision space (what
schedulers/ilp_scheduler.py publishes as its constraints), searched by a serial schedule-generation
scheme over every precedence-compatible order and every (worker, strategy) assignment:

  * a task that is not running starts at an integer time >= max(now + 1, release);
  * with enforcement a *placed* task has start + chosen runtime <= deadline (a task that is left
    unplaced constrains nothing: since fix fd94428 the deadline row is an indicator
    constraint on "is placed"; before it, one hopeless task made the whole model infeasible);
  * a SCHEDULED task must stay placed when schedules are not retracted (it may move);
  * a RUNNING task occupies its worker from `now` for the full runtime of its strategy;
  * a child starts >= parent start + (runtime + 1 if the parent is placed); a task is placed only if
    every predecessor that is in the model is placed;
  * two tasks that are not ancestor/descendant overlap unless one starts at least 1us after the other
    ends; for every task t, worker w and resource type: demand(t on w) + sum of the demands of the tasks
    on w that overlap t <= total(w)   (the ILP's pairwise formulation);
  * a task graph is rewarded iff every in-model task of the graph is placed.

Every plan the search finds satisfies all of these, i.e. is a feasible point of the ILP's model with a
reward of (ILP's reward + 1): the solver, whose stopping rule is a 10 % relative gap on an objective of
at most 4, cannot legitimately stop below it.  The search is not complete (an active-schedule scheme
under the pairwise overlap rule), which only costs sensitivity.  The ILP's own plan is also evaluated
under the transcription; if it falls outside (`c14_ilp_plan_outside_reference_model`) the instance is
skipped, never reported.

A second, *physical* reference (half-open intervals, start >= now, capacity per instant) is evaluated as
a measurement only (`c14_ilp_physical_optimum_higher`): the ILP's conventions are deliberately
conservative and the property is decided against the planner's own decision space (DESIGN.md section 4)."""
import itertools

from .monitor import _us, demand_of

MAX_TASKS = 5
BUDGET = 60000


class _T:
    __slots__ = ("task", "name", "graph", "lb", "deadline", "opts", "forced", "parents", "anc", "running",
                 "fixed")

    def __init__(self):
        self.parents = []
        self.anc = set()
        self.running = False
        self.fixed = None


def _instance(ctx, sched, now, task_pl, offered):
    pol = ctx.world["policy"]
    retract = bool(pol.get("retract"))
    enforce = bool(pol.get("enforce_deadlines"))
    workers = []
    for pool in ctx.built.worker_pools.worker_pools:
        for w in pool.workers:
            workers.append(w)
    totals = {}
    for w in workers:
        led = ctx.ledgers.get(id(w))
        if led is None or led.used_specific():
            return None
        totals[id(w)] = dict(led.total_by_type)
    inmodel = {}
    for tid, t in offered.items():
        inmodel[tid] = t
    for t in ctx.all_live_tasks():
        st = t.state.name
        if st == "RUNNING" or (st == "SCHEDULED" and not retract):
            inmodel[id(t)] = t
    items = {}
    for tid, t in inmodel.items():
        x = _T()
        x.task = t
        x.name = t.unique_name
        x.graph = t.task_graph
        st = t.state.name
        x.deadline = _us(t.deadline) if enforce else None
        if st == "RUNNING":
            cp = t.current_placement
            led = None
            for w in workers:
                l_ = ctx.ledgers[id(w)]
                if tid in l_.residents:
                    led = l_
            if led is None or cp is None or cp.execution_strategy is None:
                return None
            strat = led.residents[tid][1]
            if id(strat) in led.batches:
                return None
            x.running = True
            x.fixed = (id(led.worker), now, _us(strat.runtime), demand_of(strat))
            x.lb = now
            x.opts = []
            x.forced = True
        else:
            rel = _us(t.release_time)
            x.lb = max(now + 1, rel if rel is not None else 0)
            x.opts = []
            for w in workers:
                for s in t.available_execution_strategies:
                    dem = demand_of(s)
                    if any(rid != "any" for _, rid, _ in dem):
                        return None
                    need = {}
                    for n, _, q in dem:
                        need[n] = need.get(n, 0) + q
                    if all(totals[id(w)].get(n, 0) >= q for n, q in need.items()):
                        x.opts.append((id(w), _us(s.runtime), dem, s))
            x.forced = st == "SCHEDULED" and not retract
        items[tid] = x
    # parents / ancestors restricted to the model (spec graph)
    for tid, x in items.items():
        s = ctx.shadow(x.task)
        for pname, ps in ctx.parent_shadows(s):
            if ps is not None and id(ps.task) in items:
                x.parents.append(id(ps.task))
    # full ancestor relation through the spec (also through tasks outside the model)
    for tid, x in items.items():
        s = ctx.shadow(x.task)
        seen = set()
        stack = [s]
        while stack:
            cur = stack.pop()
            for pname, ps in ctx.parent_shadows(cur):
                if ps is not None and id(ps.task) not in seen:
                    seen.add(id(ps.task))
                    stack.append(ps)
        x.anc = {a for a in seen if a in items}
    return {"items": items, "workers": workers, "totals": totals, "enforce": enforce, "now": now}


def _dependent(items, a, b):
    return a in items[b].anc or b in items[a].anc


def _overlap(s1, r1, s2, r2):
    """ILP convention: no overlap iff one starts at least 1us after the other ends"""
    return not (s1 >= s2 + r2 + 1 or s1 + r1 <= s2 - 1)


def _feasible_relaxed(inst, plan):
    """the same decision space without the start-time variable of tasks that are left unplaced"""
    return _feasible_model(inst, plan, relaxed=True)


def _feasible_model(inst, plan, relaxed=True):
    """plan: tid -> (worker id or None, start, runtime, demand); every in-model task present"""
    items = inst["items"]
    for tid, x in items.items():
        w, s, r, dem = plan[tid]
        if not x.running:
            if s < x.lb:
                return False
            if x.deadline is not None and s + (r if w is not None else 0) > x.deadline and \
                    not (relaxed and w is None):
                return False
            if x.forced and w is None:
                return False
        for p in x.parents:
            pw, ps_, pr, _ = plan[p]
            if not x.running:
                if s < ps_ + ((pr + 1) if pw is not None else 0):
                    return False
                if w is not None and pw is None:
                    return False
    ids = list(items)
    for t1 in ids:
        w1, s1, r1, d1 = plan[t1]
        r1e = r1 if w1 is not None else 0
        for w in inst["workers"]:
            wid = id(w)
            if items[t1].running and w1 != wid:
                continue
            use = {}
            if w1 == wid:
                for n, _, q in d1:
                    use[n] = use.get(n, 0) + q
            for t2 in ids:
                if t2 == t1:
                    continue
                w2, s2, r2, d2 = plan[t2]
                if w2 != wid:
                    continue
                if _dependent(items, t1, t2):
                    continue
                if _overlap(s1, r1e, s2, r2):
                    for n, _, q in d2:
                        use[n] = use.get(n, 0) + q
            for n, u in use.items():
                if u > inst["totals"][wid].get(n, 0):
                    return False
    return True


def _feasible_physical(inst, plan):
    items = inst["items"]
    now = inst["now"]
    for tid, x in items.items():
        w, s, r, dem = plan[tid]
        if w is None:
            if x.forced:
                return False
            continue
        if not x.running:
            if s < max(now, x.lb - 1 if x.lb == now + 1 else x.lb):
                return False
            if x.deadline is not None and s + r > x.deadline:
                return False
        for p in x.parents:
            pw, ps_, pr, _ = plan[p]
            if pw is None or s < ps_ + pr:
                return False
    pts = sorted({plan[t][1] for t in items if plan[t][0] is not None})
    for w in inst["workers"]:
        wid = id(w)
        for pt in pts:
            use = {}
            for t in items:
                tw, s, r, dem = plan[t]
                if tw == wid and s <= pt < s + r:
                    for n, _, q in dem:
                        use[n] = use.get(n, 0) + q
            for n, u in use.items():
                if u > inst["totals"][wid].get(n, 0):
                    return False
    return True


def _sgs(inst, want, feasible, budget, physical=False):
    """serial schedule generation: is there a plan that places exactly `want` (plus forced/running
    tasks) and satisfies `feasible`?  returns (True/False/None when the budget ran out, plan)"""
    items = inst["items"]
    free = [tid for tid, x in items.items() if not x.running]
    place = [tid for tid in free if tid in want or items[tid].forced]
    for tid in place:
        if not items[tid].opts:
            return False, None
    base = {tid: (x.fixed[0], x.fixed[1], x.fixed[2], x.fixed[3]) for tid, x in items.items() if x.running}
    horizon_end = max([x.deadline for x in items.values() if x.deadline is not None] + [inst["now"] + 40])
    count = [0]
    orders = [o for o in itertools.permutations(free)
              if all(o.index(p) < o.index(t) for t in free for p in items[t].parents if p in free)]
    for order in orders:
        for assign in itertools.product(*[items[t].opts for t in place]):
            count[0] += 1
            if count[0] > budget:
                return None, None
            amap = dict(zip(place, assign))
            plan = dict(base)
            ok = True
            for t in order:
                x = items[t]
                lb = x.lb if not physical else (inst["now"] if x.lb == inst["now"] + 1 else x.lb)
                for p in x.parents:
                    pw, ps_, pr, _ = plan[p]
                    if physical:
                        lb = max(lb, ps_ + (pr if pw is not None else 0))
                    else:
                        lb = max(lb, ps_ + ((pr + 1) if pw is not None else 0))
                if t not in amap:
                    plan[t] = (None, lb, 0, ())
                    if x.deadline is not None and lb > x.deadline and not physical and \
                            feasible is not _feasible_relaxed:
                        ok = False
                        break
                    continue
                wid, rt, dem, _s = amap[t]
                placed = False
                hi = (x.deadline - rt) if x.deadline is not None else horizon_end
                s = lb
                while s <= hi:
                    plan[t] = (wid, s, rt, dem)
                    partial = {k: v for k, v in plan.items()}
                    # tasks not yet sequenced do not constrain the partial plan
                    sub = {"items": {k: items[k] for k in partial}, "workers": inst["workers"],
                           "totals": inst["totals"], "now": inst["now"]}
                    if _partial_ok(sub, partial, feasible):
                        placed = True
                        break
                    s += 1
                if not placed:
                    ok = False
                    break
            if ok and len(plan) == len(items) and feasible(inst, plan):
                return True, plan
    return False, None


def _partial_ok(sub, partial, feasible):
    # parents outside the partial plan cannot occur (orders are precedence compatible)
    try:
        return feasible(sub, partial)
    except KeyError:
        return True


def check_c14_ilp(ctx, sched, now, task_pl, offered):
    pol = ctx.world["policy"]
    if pol.get("goal", "max_goodput") != "max_goodput" or pol.get("release_taskgraphs") or pol.get("batching"):
        return
    if ctx.world.get("faults", {}).get("clock", "jitter") == "jump":
        return  # a jumping wall clock can trip the solver's gap-time limit: not the planner's fault
    if not offered or len(offered) > 4:
        return
    inst = _instance(ctx, sched, now, task_pl, offered)
    if inst is None:
        ctx.probe("c14_ilp_instance_not_modelled")
        return
    items = inst["items"]
    free = [tid for tid, x in items.items() if not x.running]
    if len(free) > MAX_TASKS or len(inst["workers"]) > 2:
        return
    dec = {id(p.task): p for p in task_pl if p.placement_type.name == "PLACE_TASK"}
    if any(tid not in dec for tid in free):
        return  # a cancel decision or an unanswered task: C10's / C12's business
    # the ILP's own plan under the transcription
    plan = {tid: x.fixed for tid, x in items.items() if x.running}
    wid_of = {w.id: id(w) for w in inst["workers"]}
    # unplaced tasks: earliest start (their variable is free)
    order = sorted(free, key=lambda t: len(items[t].anc))
    for t in order:
        p = dec[t]
        x = items[t]
        if p.is_placed() and p.execution_strategy is not None and p.worker_id in wid_of:
            plan[t] = (wid_of[p.worker_id], _us(p.placement_time), _us(p.execution_strategy.runtime),
                       demand_of(p.execution_strategy))
        elif p.is_placed():
            return
        else:
            lb = x.lb
            for q in x.parents:
                if q in plan:
                    pw, ps_, pr, _ = plan[q]
                    lb = max(lb, ps_ + ((pr + 1) if pw is not None else 0))
            plan[t] = (None, lb, 0, ())
    graphs = sorted({items[t].graph for t in free})
    if len(graphs) > 4:
        return
    achieved = {g for g in graphs if all(plan[t][0] is not None for t in free if items[t].graph == g)}
    ctx.probe("c14_ilp_goodput_checked")
    feasible = _feasible_relaxed
    empty = not any(plan[t][0] is not None for t in free)
    model_infeasible = empty and not _feasible_model(inst, plan, relaxed=False)
    if model_infeasible:
        # with the deadline row of an unplaced task still in the model ("start >= now + 1" against
        # "start <= deadline" for a task whose deadline has passed) there is no feasible point at all
        ctx.probe("c14_ilp_hopeless_task_and_empty_plan")
    if not _feasible_relaxed(inst, plan):
        ctx.probe("c14_ilp_plan_outside_reference_model")
        return
    if len(achieved) == len(graphs):
        ctx.probe("c14_ilp_all_graphs_rewarded")
        return
    # can one more graph be rewarded?
    cut = False
    for extra in itertools.combinations(graphs, len(achieved) + 1):
        want = {t for t in free if items[t].graph in extra}
        ok, better = _sgs(inst, want, feasible, BUDGET)
        if ok is None:
            cut = True
            continue
        if ok:
            names = sorted(items[t].name for t in want)
            desc = {items[t].name: (better[t][1], better[t][2]) if better[t][0] is not None else None for t in free}
            empty = not any(plan[t][0] is not None for t in free)
            ctx.violate(
                "C14", "ilp_goodput_not_optimal",
                f"ILP at t={now}: the returned plan rewards {len(achieved)} of {len(graphs)} task graphs "
                f"({sorted(achieved)}), but placing {names} is feasible in the ILP's own decision space "
                f"(start, runtime per task: {desc})",
                {"policy": "ILP", "achieved": len(achieved), "possible_at_least": len(extra),
                 "empty_plan": empty, "model_infeasible": model_infeasible, "retract": bool(pol.get("retract")),
                 "forced_scheduled_tasks": any(items[t].forced for t in free),
                 "running_tasks": any(x.running for x in items.values()),
                 "hopeless_task_in_model": any(x.deadline is not None and not x.running and (
                     not x.opts or x.lb + min(o[1] for o in x.opts) > x.deadline) for x in items.values())})
            return
    if cut:
        ctx.probe("c14_ilp_search_cut")
        return
    ctx.probe("c14_ilp_goodput_confirmed_optimal")
    # measurement only: the physical optimum
    for extra in itertools.combinations(graphs, len(achieved) + 1):
        want = {t for t in free if items[t].graph in extra}
        ok, _ = _sgs(inst, want, _feasible_physical, BUDGET // 4, physical=True)
        if ok:
            ctx.probe("c14_ilp_physical_optimum_higher")
            break
