"""Turn a world spec into real /repo objects (public constructors only)."""
import ast
import os
import sys
import types

from . import env

_FLAG_DEFAULTS = None


def flag_defaults():
    """Defaults of every absl flag defined by main.py, parsed with ast (main.py is never
    imported: importing it would define flags on the global FLAGS object)."""
    global _FLAG_DEFAULTS
    if _FLAG_DEFAULTS is not None:
        return _FLAG_DEFAULTS
    out = {}
    try:
        tree = ast.parse(open(os.path.join(env.REPO, "main.py")).read())
        for node in ast.walk(tree):
            if isinstance(node, ast.Call) and isinstance(node.func, ast.Attribute) and \
                    node.func.attr.startswith("DEFINE_") and len(node.args) >= 2:
                try:
                    name = ast.literal_eval(node.args[0])
                except Exception:
                    continue
                try:
                    val = ast.literal_eval(node.args[1])
                except Exception:
                    val = None
                    src = ast.unparse(node.args[1])
                    if src == "sys.maxsize":
                        val = sys.maxsize
                out[name] = val
    except Exception:
        pass
    _FLAG_DEFAULTS = out
    return out


class FlagsNS(types.SimpleNamespace):
    def __getattr__(self, name):
        d = flag_defaults()
        if name in d:
            return d[name]
        raise AttributeError(name)


def make_flags(world):
    fl = FlagsNS(log_dir=None, log_file_name=None, log_level="info", csv_file_name=None,
                 random_seed=world["seed"], loop_timeout=world["sim"]["loop_timeout"])
    for k, v in world["flags"].items():
        setattr(fl, k, v)
    pol = world["policy"]
    fl.release_taskgraphs = bool(pol.get("release_taskgraphs", world["flags"].get("release_taskgraphs", False)))
    return fl


class Built:
    pass


def US(x):
    from utils import EventTime

    return EventTime(int(x), EventTime.Unit.US)


def build_resources(spec_list):
    from workload import Resource, Resources

    vec = {}
    for x in spec_list:
        vec[Resource(name=x["name"], _id=x["id"])] = x["q"]
    return Resources(resource_vector=vec)


def build_req(req):
    from workload import Resource, Resources

    vec = {}
    for k, q in req.items():
        name, rid = k.split(":")
        vec[Resource(name=name, _id=rid)] = q
    return Resources(resource_vector=vec)


def build_cluster(cluster):
    from workers import Worker, WorkerPool, WorkerPools

    pools = []
    for p in cluster["pools"]:
        workers = [Worker(name=w["name"], resources=build_resources(w["resources"]))
                   for w in p["workers"]]
        pools.append(WorkerPool(name=p["name"], workers=workers))
    return WorkerPools(pools)


def build_strategies(slist):
    from workload import ExecutionStrategies, ExecutionStrategy

    es = ExecutionStrategies()
    for s in slist:
        es.add_strategy(ExecutionStrategy(resources=build_req(s["req"]),
                                          batch_size=s.get("batch", 1),
                                          runtime=US(s["runtime"])))
    return es


def build_profile(p):
    from workload import WorkProfile

    return WorkProfile(name=p["name"], execution_strategies=build_strategies(p["strategies"]),
                       loading_strategies=build_strategies(p.get("loading", [])))


def build_release(rel, seed):
    from workload import JobGraph

    RP = JobGraph.ReleasePolicy
    t = rel["type"]
    start = US(rel.get("start", 0))
    if t == "fixed":
        return RP.fixed(period=US(rel["period"]), num_invocations=rel["invocations"], start=start)
    if t == "periodic":
        return RP.periodic(period=US(rel["period"]), start=start)
    if t == "poisson":
        return RP.poisson(rate=rel["rate"], num_invocations=rel["invocations"], start=start,
                          rng_seed=seed)
    if t == "gamma":
        return RP.gamma(rate=rel["rate"], coefficient=rel["coefficient"],
                        num_invocations=rel["invocations"], start=start, rng_seed=seed)
    if t == "fixed_gamma":
        return RP.fixed_gamma(variable_arrival_rate=rel["rate"], base_arrival_rate=rel["base_rate"],
                              coefficient=rel["coefficient"], num_invocations=rel["invocations"],
                              start=start, rng_seed=seed)
    if t == "closed_loop":
        return RP.closed_loop(concurrency=rel["concurrency"], num_invocations=rel["invocations"],
                              start=start)
    raise ValueError(t)


def build_job_graph(g, profiles, seed):
    from workload import Job, JobGraph

    jobs = {}
    for n in g["nodes"]:
        jobs[n["name"]] = Job(name=n["name"], profile=profiles[n["profile"]],
                              slo=US(n["slo"]) if n.get("slo") is not None else US(-1),
                              conditional=n.get("conditional", False),
                              probability=n.get("probability", 1.0),
                              terminal=n.get("terminal", False))
    nodes = list(g["nodes"])
    if g.get("node_order"):
        # the order in which a description lists its nodes carries no meaning: insert them in a seeded order
        rank = {name: i for i, name in enumerate(g["node_order"])}
        nodes.sort(key=lambda n: rank.get(n["name"], len(rank)))
    mapping = {jobs[n["name"]]: [jobs[c] for c in n["children"]] for n in nodes}
    dv = tuple(g["deadline_variance"]) if g.get("deadline_variance") is not None else None
    return JobGraph(name=g["name"], jobs=mapping,
                    release_policy=build_release(g["release"], seed), deadline_variance=dv)


class StaticLoader:
    pass


def make_loader_classes():
    from data import BaseWorkloadLoader

    class _Static(BaseWorkloadLoader):
        def __init__(self, workload):
            self._workload = workload
            self._done = False
            self.calls = 0

        def get_next_workload(self, current_time):
            self.calls += 1
            if self._done:
                return None
            self._done = True
            return self._workload

    class _Cumulative(BaseWorkloadLoader):
        """F4: delivers the task graphs in windows, the way the bundled AlibabaLoader does: every call adds the
        graphs released up to `current_time + window` to one and the same Workload object and returns it; None
        once nothing is left.  Never late: a graph is always delivered at or before its release time."""

        def __init__(self, full, live, window):
            from utils import EventTime

            self._pending = sorted(full.task_graphs.items(),
                                   key=lambda kv: (kv[1].release_time.to(EventTime.Unit.US).time, kv[0]))
            self._live = live
            self._window = EventTime(window, EventTime.Unit.US)
            self.calls = 0
            self.deliveries = 0

        def get_next_workload(self, current_time):
            self.calls += 1
            rel = []
            while self._pending and self._pending[0][1].release_time <= current_time + self._window:
                rel.append(self._pending.pop(0))
            if not self._pending and not rel:
                return None
            for name, tg in rel:
                self._live.add_task_graph(tg)
            if rel:
                self.deliveries += 1
            return self._live

    return _Static, _Cumulative


_LOADER_CLS = None


def build_world(world):
    """Returns a Built with worker_pools, workload, loader, scheduler, flags, sim kwargs."""
    global _LOADER_CLS
    env.bootstrap()
    from workload import Workload

    b = Built()
    b.world = world
    b.flags = make_flags(world)
    if world.get("via_loader"):
        return _build_via_loader(world, b)
    b.worker_pools = build_cluster(world["cluster"])
    profiles = {name: build_profile(p) for name, p in world["profiles"].items()}
    b.profiles = profiles
    jgs = {}
    for i, g in enumerate(world["graphs"]):
        jgs[g["name"]] = build_job_graph(g, profiles, seed=(world["seed"] * 1000 + i) % (2 ** 32))
    b.job_graphs = jgs
    b.preloaded = []
    for wname, pname in world.get("preload", []):
        for pool in b.worker_pools.worker_pools:
            for w in pool.workers:
                if w.name == wname:
                    prof = profiles[pname]
                    ls = prof.loading_strategies.get_fastest_strategy()
                    w.load_profile(prof, ls)
                    b.preloaded.append((w, prof, ls))
    if b.preloaded:
        for pool in b.worker_pools.worker_pools:
            pool.step(US(0), US(1000000))
    b.workload = Workload.from_job_graphs(jgs, _flags=b.flags)
    b.workload.populate_task_graphs(completion_time=US(world["sim"]["loop_timeout"]))
    if world.get("mixed_units"):
        _mix_units(world, b)
    if world.get("stagger_sources"):
        _stagger_sources(world, b)
    if _LOADER_CLS is None:
        _LOADER_CLS = make_loader_classes()
    if world.get("loader", {}).get("kind") == "batch":
        b.full_workload = b.workload
        b.workload = Workload.from_job_graphs(jgs, _flags=b.flags)  # the live, growing workload
        b.loader = _LOADER_CLS[1](b.full_workload, b.workload, world["loader"].get("window", world["loader"]["interval"]))
    else:
        b.loader = _LOADER_CLS[0](b.workload)
    b.scheduler = build_policy(world, b)
    b.loop_timeout = US(world["sim"]["loop_timeout"])
    b.scheduler_frequency = US(world["sim"]["scheduler_frequency"])
    return b


def _build_via_loader(world, b):
    """the world is rendered as a YAML/JSON description (scratch directory outside /repo and /verif, removed
    right after loading) and instantiated by the project's own WorkloadLoader / WorkerLoader; the simulator then
    gets the real loader object.  Everything downstream (monitors, oracles) still takes its expectations from the
    world spec."""
    import shutil
    import tempfile

    from . import cli19

    for g in world["graphs"]:
        if g["release"]["type"] == "fixed_gamma":
            g["release"] = {"type": "gamma", "rate": g["release"]["rate"], "coefficient": g["release"]["coefficient"],
                            "invocations": g["release"]["invocations"], "start": g["release"].get("start", 0)}
    fmt = world["via_loader"]
    wl_desc, wk_desc = cli19.to_descriptions(world, terse=(fmt.get("terse", False)))
    tmp = tempfile.mkdtemp(prefix="erdos-verif-")
    try:
        ext = fmt.get("format", "json")
        wl_path = os.path.join(tmp, f"workload.{ext}")
        wk_path = os.path.join(tmp, f"workers.{ext}")
        cli19._dump(wl_desc, wl_path)
        cli19._dump(wk_desc, wk_path)
        from data import WorkerLoader, WorkloadLoader

        wloader = WorkloadLoader(path=wl_path, _flags=b.flags)
        kloader = WorkerLoader(worker_profile_path=wk_path, _flags=b.flags)
    finally:
        shutil.rmtree(tmp, ignore_errors=True)
    b.worker_pools = kloader.get_worker_pools()
    b.workload = wloader.workload
    b.loader = wloader
    b.profiles = {}
    b.job_graphs = dict(b.workload.job_graphs) if hasattr(b.workload, "job_graphs") else {}
    b.preloaded = []
    if world.get("stagger_sources"):
        _stagger_sources(world, b)
    b.scheduler = build_policy(world, b)
    b.loop_timeout = US(world["sim"]["loop_timeout"])
    b.scheduler_frequency = US(world["sim"]["scheduler_frequency"])
    return b


def _stagger_sources(world, b):
    """task graphs whose source tasks arrive at different instants (what the trace loaders and
    Workload.from_task_graphs produce; JobGraph.generate_task_graphs gives every source the graph's release
    time): a seeded subset of the sources of multi-source graphs is released a few microseconds later"""
    import random

    from utils import EventTime

    r = random.Random(f"{world['seed']}:stagger")
    for name in sorted(b.workload.task_graphs):
        tg = b.workload.task_graphs[name]
        sources = sorted(tg.get_source_tasks(), key=lambda t: t.name)
        if len(sources) < 2 or r.random() < 0.3:
            continue
        for t in sources[1:]:
            if r.random() < 0.7:
                late = t.release_time + EventTime(r.choice([1, 2, 3, 5, 8]), EventTime.Unit.US)
                t._release_time = late
                t._intended_release_time = late


def _mix_units(world, b):
    """worlds on a millisecond grid: round every task deadline up to a whole millisecond and write a seeded
    half of them in ms (or s when possible) instead of us -- the same instants, another unit"""
    import random

    from utils import EventTime

    r = random.Random(f"{world['seed']}:units")
    for tg in b.workload.task_graphs.values():
        for t in tg.get_nodes():
            d = t.deadline.to(EventTime.Unit.US).time
            if d <= 0:
                continue
            d = -(-d // 1000) * 1000
            u = r.random()
            if u < 0.15 and d % 1000000 == 0:
                t.update_deadline(EventTime(d // 1000000, EventTime.Unit.S))
            elif u < 0.6:
                t.update_deadline(EventTime(d // 1000, EventTime.Unit.MS))
            else:
                t.update_deadline(EventTime(d, EventTime.Unit.US))


def build_policy(world, b):
    pol = world["policy"]
    name = pol["name"]
    rt = US(pol.get("runtime", 0))
    fl = b.flags
    if name == "EDF":
        from schedulers import EDFScheduler

        return EDFScheduler(runtime=rt, enforce_deadlines=pol.get("enforce_deadlines", False), _flags=fl)
    if name == "FIFO":
        from schedulers import FIFOScheduler

        return FIFOScheduler(runtime=rt, enforce_deadlines=pol.get("enforce_deadlines", False), _flags=fl)
    if name == "LSF":
        from schedulers import LSFScheduler

        return LSFScheduler(runtime=rt, _flags=fl)
    if name == "Chaos":
        from .chaos import make_chaos

        return make_chaos(world, b)
    if name == "WC":
        from .chaos import make_wc

        return make_wc(world, b)
    from .policies import build_planner

    return build_planner(world, b)


def make_simulator(b):
    from simulator import Simulator

    return Simulator(worker_pools=b.worker_pools, scheduler=b.scheduler, workload_loader=b.loader,
                     loop_timeout=b.loop_timeout, scheduler_frequency=b.scheduler_frequency,
                     _flags=b.flags)
