"""Per-property configuration: which worlds are generated, how many, what counts as a
non-trivial case, how a failing case is minimised and replayed."""
from . import engine, runner, shrink, world


def world_summary(w):
    return {"policy": w["policy"], "sim": w["sim"],
            "flags": {k: v for k, v in w["flags"].items() if v not in (False, 0, [], -1, None)},
            "cluster": [[len(wk["resources"]) for wk in p["workers"]] for p in w["cluster"]["pools"]],
            "graphs": [{"name": g["name"], "shape": g["shape"], "nodes": len(g["nodes"]),
                        "release": g["release"],
                        "edges": [[n["name"], n["children"]] for n in g["nodes"]]} for g in w["graphs"]],
            "faults": w["faults"]}


def world_case(prop, seed, stream):
    return world.gen_world(seed, stream["profile"], dict(stream.get("opts", {})))


def world_run(prop, seed, stream):
    w = world_case(prop, seed, stream)
    r = runner.run_world(w)
    r["sample"] = world_summary(w)
    return r


def world_run_case(prop, case):
    return runner.run_world(case)


def world_shrink(prop, case, v):
    known = engine.load_known()
    was_known = engine.match_known(v, known) is not None

    def still(w):
        r = runner.run_world(w)
        for x in r["violations"]:
            if x["property"] == prop and x["oracle"] == v["oracle"]:
                if (engine.match_known(x, known) is not None) == was_known:
                    return True
        return False

    return shrink.shrink(case, still)


def W(streams, quick, thorough, rule, nontrivial=None, **kw):
    d = {"streams": streams, "runs": {"quick": quick, "thorough": thorough}, "rule": rule,
         "run": world_run, "case": world_case, "run_case": world_run_case, "shrink": world_shrink}
    if nontrivial:
        d["nontrivial"] = nontrivial
    d.update(kw)
    return d


G = {"profile": "greedy", "opts": {"p_batch_loader": 0}}
G_TIES = {"profile": "greedy", "opts": {"p_batch_loader": 0, "max_runtime": 3}}
G_COND = {"profile": "greedy", "opts": {"p_batch_loader": 0, "p_conditionals": 1.0}}
G_ENF = {"profile": "greedy", "opts": {"p_batch_loader": 0, "p_enforce": 0.8, "p_drop": 0.5}}
G_SINGLE = {"profile": "greedy", "opts": {"p_batch_loader": 0, "single_worker_pools": True}}
CH = {"profile": "chaos", "opts": {"p_batch_loader": 0}}
CH_COND = {"profile": "chaos", "opts": {"p_batch_loader": 0, "p_conditionals": 1.0}}

FP_RULE = ("worlds are generated swarm-style from sha256(seed:property:i); a case is non-trivial when "
           "%s; distinct = distinct fingerprints of (graph shapes x sizes x release kinds x "
           "cluster shape x policy+options x flag mix x fault mix x outcome x probes reached)")

PROPS = {
    "C01": W([G, G, CH, G_TIES], 1600, 60000, FP_RULE % "at least one task was placed on a worker",
             lambda r: r["stats"].get("started", 0) > 0),
    "C02": W([G, CH, G_COND, CH_COND], 1600, 60000,
             FP_RULE % "a task with predecessors (or a join) started",
             lambda r: r["stats"].get("started", 0) > 1),
    "C03": W([G_TIES, G, CH, G_TIES], 1600, 60000, FP_RULE % "at least one task finished",
             lambda r: r["stats"].get("finished", 0) > 0),
    "C05": W([G, G_TIES, G_ENF, G_COND], 1600, 60000,
             FP_RULE % "the run executed at least one scheduler invocation under a bundled policy",
             lambda r: r["stats"].get("invocations", 0) > 0),
    "C06": W([G_ENF, CH, G_COND, CH_COND], 1600, 60000,
             FP_RULE % "at least one task changed state twice or a task was cancelled",
             lambda r: r["stats"].get("started", 0) > 0 or r["stats"].get("cancelled", 0) > 0),
    "C07": W([G_COND, CH_COND], 1600, 60000, FP_RULE % "at least one conditional task completed",
             lambda r: r["probes"].get("conditional_resolved", 0) > 0),
    "C08": W([G, G_ENF, G_COND, CH], 1200, 40000, FP_RULE % "the trace holds at least one TASK_FINISHED or "
             "TASK_CANCEL row", lambda r: r["stats"].get("finished", 0) + r["stats"].get("cancelled", 0) > 0),
    "C13": W([G_SINGLE], 1600, 60000, FP_RULE % "an invocation on single-worker pools left a task unplaced",
             lambda r: r["probes"].get("c13_unplaced_task_checked", 0) > 0),
    "C18": W([G, CH, G_COND, CH_COND], 1600, 60000, FP_RULE % "the frontier was queried with >=1 task offered",
             lambda r: r["stats"].get("invocations", 0) > 0),
}


def _lib(mod, quick, thorough, rule, **kw):
    d = {"streams": [{"profile": "lib"}], "runs": {"quick": quick, "thorough": thorough}, "rule": rule,
         "run": mod.run, "case": mod.case, "run_case": mod.run_case, "shrink": mod.shrink_ops,
         "nontrivial": lambda r: r["stats"].get("started", 0) > 0}
    d.update(kw)
    return d


from . import lib16  # noqa: E402

PROPS["C16"] = _lib(
    lib16, 30000, 1500000,
    "seeded operation histories (<=40 queue operations: add/next/remove/in-place re-timing+reheapify/peek/"
    "next-of-type over events of all types at few distinct times and task names, then <=15 EventTime algebra "
    "operations on values in random units incl. negatives and the invalid marker); non-trivial = at least one "
    "event was popped; distinct = distinct (probes reached, history length bucket, #event types, #times, first "
    "six operations). The same pop-order oracle also runs online in every simulated run of C01-C08.",
    real=["simulator.EventQueue/Event/EventType", "utils.EventTime"], stub=[])

from . import lib04  # noqa: E402

PROPS["C04"] = _lib(
    lib04, 20000, 1000000,
    "seeded operation histories (<=25 operations) over a Resources object (allocate / allocate_multiple / "
    "deallocate / copy / deepcopy) or a pool of 1-2 workers (place / place-in-batch incl. re-using a BatchStrategy "
    "after its batch left / remove / load / evict / copy / deepcopy, continuing on the copy or on the original) "
    "with <=3 types x <=3 instances, quantities 0-3, `any` and id-specific requests, requests above availability "
    "and removals/evictions of unknown items at arbitrary points (F7); non-trivial = at least one operation "
    "succeeded; distinct = distinct (mode, probes reached, #workers, vector size, first five operations). The "
    "in-run clause (idle => full capacity; allocated == demand of residents) is evaluated at every event boundary "
    "of the simulated runs in the second stream.",
    real=["workload.Resources/Resource", "workers.Worker/WorkerPool", "workload.BatchStrategy"], stub=[])


# ------------------------------------------------------------------ mixed streams
def _kind(stream):
    return stream.get("kind", "world") if isinstance(stream, dict) else "world"


_MODS = {"lib04": lib04, "lib16": lib16}


def any_run(prop, seed, stream):
    k = _kind(stream)
    if k == "world":
        return world_run(prop, seed, stream)
    return _MODS[k].run(prop, seed, stream)


def any_case(prop, seed, stream):
    k = _kind(stream)
    c = world_case(prop, seed, stream) if k == "world" else _MODS[k].case(prop, seed, stream)
    c["_kind"] = k
    return c


def any_run_case(prop, case):
    k = case.get("_kind", "world")
    return world_run_case(prop, case) if k == "world" else _MODS[k].run_case(prop, case)


def any_shrink(prop, case, v):
    k = case.get("_kind", "world")
    c, runs, steps = (world_shrink(prop, case, v) if k == "world" else _MODS[k].shrink_ops(prop, case, v))
    c["_kind"] = k
    return c, runs, steps


def _mixed(pid, streams):
    PROPS[pid].update({"streams": streams, "run": any_run, "case": any_case, "run_case": any_run_case,
                       "shrink": any_shrink})
    PROPS[pid]["nontrivial"] = lambda r: r["stats"].get("started", 0) > 0


L04 = {"kind": "lib04", "profile": "lib"}
L16 = {"kind": "lib16", "profile": "lib"}
_mixed("C04", [L04] * 15 + [G, CH])
_mixed("C16", [L16] * 15 + [G_TIES, CH])

# ------------------------------------------------------------------ planners
PLAN = {"profile": "plan", "opts": dict(world.PLAN_OPTS)}
PLAN_ENF = {"profile": "plan", "opts": dict(world.PLAN_OPTS, policy_opts={"enforce_deadlines": True})}
PLAN_NOCHAOS = {"profile": "plan", "opts": dict(world.PLAN_OPTS, p_solver_chaos=0.0)}
PLAN_TETRI_G = {"profile": "plan", "opts": dict(world.PLAN_OPTS, p_solver_chaos=0.0, policy="TetriSchedGurobi")}
PLAN_TETRI_C = {"profile": "plan", "opts": dict(world.PLAN_OPTS, p_solver_chaos=0.0, policy="TetriSchedCPLEX")}
PLAN_ILP = {"profile": "plan", "opts": dict(world.PLAN_OPTS, policy="ILP")}
PLAN_ILP_GOODPUT = {"profile": "plan", "opts": dict(world.PLAN_OPTS, policy="ILP", p_solver_chaos=0.0,
                                                    policy_opts={"goal": "max_goodput", "enforce_deadlines": True})}

_PLAN_REAL = ["schedulers.ILPScheduler / TetriSchedGurobiScheduler / TetriSchedCPLEXScheduler (unmodified)",
              "Gurobi 13 and CPLEX 22 themselves (size-limited licences)"]
_PLAN_STUB = ["solver threads forced to 1 and console output off (multiprocessing.cpu_count seam, "
              "gurobipy.Model.optimize wrapper)",
              "solver-choice perturbation F6: after the policy's own solve the same model is re-solved under a "
              "seeded random objective and the policy's own extraction code decodes that feasible point"]

PROPS["C10"] = W([G, PLAN, G_ENF, PLAN, CH], 1200, 40000,
                 FP_RULE % "a bundled policy was invoked at least once and returned at least one decision",
                 lambda r: r["probes"].get("invocation_with_decisions", 0) > 0,
                 real=_PLAN_REAL, stub=_PLAN_STUB, per_run_timeout=120)
PROPS["C11"] = W([PLAN_ILP, {"profile": "plan", "opts": dict(world.PLAN_OPTS, policy="TetriSchedGurobi")}],
                 600, 20000,
                 FP_RULE % "a DAG-aware planner decided a task together with one of its predecessors, or with a "
                 "running/scheduled predecessor",
                 lambda r: (r["probes"].get("c11_parent_and_child_codecided", 0) +
                            r["probes"].get("c11_running_parent", 0) +
                            r["probes"].get("c11_scheduled_parent", 0)) > 0,
                 real=_PLAN_REAL, stub=_PLAN_STUB, per_run_timeout=120)
PROPS["C12"] = W([G_ENF, PLAN_ENF, PLAN_ENF, PLAN_ENF], 800, 30000,
                 FP_RULE % "a policy with enforce_deadlines decided a task whose deadline is hopeless or exactly tight, "
                 "or a planner placed a task",
                 lambda r: (r["probes"].get("c12_hopeless_task", 0) + r["probes"].get("c12_exactly_tight", 0)) > 0
                 or r["stats"].get("started", 0) > 0,
                 real=_PLAN_REAL, stub=_PLAN_STUB, per_run_timeout=120)
PROPS["C14"] = W([PLAN_TETRI_G, PLAN_TETRI_C, PLAN_ILP_GOODPUT], 600, 20000,
                 FP_RULE % "a planner left an offered task unplaced on an instance inside the enumeration bound "
                 "(<=4 offered tasks, <=2 workers) so that the reference planner had to search",
                 lambda r: r["probes"].get("c14_maximality_checked", 0) + r["probes"].get("c14_ilp_goodput_checked", 0) > 0,
                 real=_PLAN_REAL, stub=_PLAN_STUB[:1], per_run_timeout=120)

CW = {"profile": "clockwork", "opts": {}}
PROPS["C15"] = W([CW], 1200, 40000,
                 FP_RULE % "Clockwork placed at least one batch",
                 lambda r: r["probes"].get("c15_batch_checked", 0) > 0,
                 real=["schedulers.ClockworkScheduler (unmodified), models loaded through Worker.load_profile or "
                       "by the policy itself (scheduler_run_load)"], stub=[])

# ------------------------------------------------------------------ widen the run profiles of the core checks
PROPS["C01"]["streams"] = [G, G, CH, G_TIES, PLAN, CW]
PROPS["C02"]["streams"] = [G, CH, G_COND, CH_COND, PLAN]
PROPS["C03"]["streams"] = [G_TIES, G, CH, G_TIES, PLAN, CW]
PROPS["C05"]["streams"] = [G, G_TIES, G_ENF, G_COND, PLAN, CW]
PROPS["C06"]["streams"] = [G_ENF, CH, G_COND, CH_COND, PLAN]
PROPS["C08"]["streams"] = [G, G_ENF, G_COND, CH, PLAN, CW]
PROPS["C10"]["streams"] = [G, PLAN, G_ENF, PLAN, CH, CW]
PROPS["C12"]["streams"] = [G_ENF, PLAN_ENF, PLAN_ENF, PLAN_ENF, CW]
PROPS["C18"]["streams"] = [G, CH, G_COND, CH_COND, PLAN]
for _p in ("C01", "C02", "C03", "C05", "C06", "C08", "C18"):
    PROPS[_p].setdefault("real", _PLAN_REAL)
    PROPS[_p].setdefault("stub", _PLAN_STUB)
    PROPS[_p]["per_run_timeout"] = 120

from . import cli19  # noqa: E402

PROPS["C19"] = {
    "streams": [{"kind": "cli19", "profile": "loader"}] * 3 + [
        {"profile": "greedy", "opts": {"p_batch_loader": 0, "release_kinds": ["closed_loop", "closed_loop", "fixed"],
                                       "p_enforce": 0.6, "p_drop": 0.4}},
        {"profile": "chaos", "opts": {"p_batch_loader": 0, "release_kinds": ["closed_loop", "closed_loop", "fixed"]}}],
    "runs": {"quick": 2500, "thorough": 100000},
    "rule": "3/5 of the cases: a generated world spec is rendered as YAML or JSON (graphs with conditionals, per-node "
            "SLOs, typed / any / id-specific resources, all release policies, deadline variance, override flags, "
            "replication factor), loaded by the real WorkloadLoader / WorkerLoader and compared with the spec "
            "(structure, releases per policy, fresh isomorphic copies, deadline base x variance); 2/5: simulated "
            "runs with closed-loop graphs under cancelling policies where the in-flight bound and the total N are "
            "checked at every event boundary; non-trivial = at least one graph loaded / one task started; distinct = "
            "distinct (format, flags, overrides, per-graph release kind x size x shape x SLOs, cluster shape, probes)",
    "run": any_run, "case": any_case, "run_case": any_run_case, "shrink": any_shrink,
    "nontrivial": lambda r: r["stats"].get("started", 0) > 0,
    "real": ["data.WorkloadLoader / data.WorkerLoader reading real YAML/JSON files from a scratch directory",
             "workload.JobGraph.ReleasePolicy / generate_task_graphs"],
    "stub": ["numpy default_rng seeded through the workload.jobs.np seam (arrival draws)"],
}
_MODS["cli19"] = type("M", (), {"run": staticmethod(cli19.run), "case": staticmethod(cli19.case),
                                "run_case": staticmethod(cli19.run_case_), "shrink_ops": staticmethod(cli19.shrink_case)})

from . import cli09  # noqa: E402

PROPS["C09"] = {
    "streams": [{"kind": "cli09", "profile": "cli"}],
    "runs": {"quick": 64, "thorough": 2000},
    "rule": "a generated world (EDF/FIFO/LSF/ILP/TetriSched-Gurobi/TetriSched-CPLEX/Clockwork with a fixed "
            "scheduler runtime; deadline variance, Poisson/Gamma arrivals, conditionals, runtime variance, >=2 resource "
            "types) is written as YAML/JSON + flagfile and the real `python main.py` runs in three fresh interpreters "
            "(baseline; another PYTHONHASHSEED; another PYTHONHASHSEED + a launcher that only replaces time.time by a "
            "skewed jumping clock); traces are compared row by row after masking the measured scheduler duration and "
            "the output-path flag lines; non-trivial = the baseline trace has rows; distinct = distinct (policy, "
            "release kinds, format, randomness features present, trace length bucket, #resource types, exit status)",
    "run": any_run, "case": any_case, "run_case": any_run_case, "shrink": any_shrink,
    "nontrivial": lambda r: r["stats"].get("rows", 0) > 0,
    "per_run_timeout": 600,
    "real": ["main.py + absl flags + data.WorkloadLoader/WorkerLoader + Simulator + every bundled policy, in fresh "
             "interpreters (untouched code)", "Gurobi / CPLEX with the parameters the policies set themselves"],
    "stub": ["launcher of the third process replaces time.time (nothing else)"],
}
_MODS["cli09"] = type("M", (), {"run": staticmethod(cli09.run), "case": staticmethod(cli09.case),
                                "run_case": staticmethod(cli09.run_case_), "shrink_ops": staticmethod(cli09.shrink_case)})

PROPS["C08"]["streams"] = [G, G_ENF, G_COND, CH, PLAN, CW,
                           {"profile": "greedy", "opts": {"p_batch_loader": 0, "p_cut": 0.6}},
                           {"profile": "chaos", "opts": {"p_batch_loader": 0, "p_cut": 0.6}}]

# ------------------------------------------------------------------ Z3 (shadow probes only)
G_Z3 = {"profile": "greedy", "opts": {"p_batch_loader": 0, "p_z3_probe": 1.0, "max_nodes": 3, "graphs": 1,
                                      "max_invocations": 2}}
PROPS["C10"]["streams"] = [G, PLAN, G_ENF, PLAN, CH, CW, G_Z3]
PROPS["C11"]["streams"] = [PLAN_ILP, {"profile": "plan", "opts": dict(world.PLAN_OPTS, policy="TetriSchedGurobi")},
                           G_Z3]
PROPS["C11"]["nontrivial"] = lambda r: (r["probes"].get("c11_parent_and_child_codecided", 0) +
                                        r["probes"].get("c11_running_parent", 0) +
                                        r["probes"].get("c11_scheduled_parent", 0) +
                                        r["probes"].get("z3_c11_codecided", 0)) > 0
for _p in ("C10", "C11"):
    PROPS[_p]["stub"] = PROPS[_p].get("stub", []) + [
        "Z3Scheduler is only shadow-probed (invoked on the live state of greedy-driven runs with <=4 offered "
        "tasks, z3 rlimit 3e6, answer checked and discarded); it cannot be driven end-to-end"]

# ------------------------------------------------------------------ conditionals whose branch heads have a side input
G_SIDE = {"profile": "greedy", "opts": {"p_batch_loader": 0, "p_conditionals": 1.0, "p_side_input": 0.6}}
CH_SIDE = {"profile": "chaos", "opts": {"p_batch_loader": 0, "p_conditionals": 1.0, "p_side_input": 0.6}}
PROPS["C02"]["streams"] = [G, CH, G_COND, CH_COND, PLAN, G_SIDE, CH_SIDE]

# ------------------------------------------------------------------ C13: preemptive EDF / LSF (shadow probes)
G_PRE = {"profile": "greedy", "opts": {"p_batch_loader": 0, "single_worker_pools": True, "p_preempt_probe": 1.0}}
PROPS["C13"]["streams"] = [G_SINGLE, G_SINGLE, G_PRE]
PROPS["C13"]["nontrivial"] = lambda r: (r["probes"].get("c13_unplaced_task_checked", 0) +
                                        r["probes"].get("c13_preemptive_unplaced_task_checked", 0)) > 0
PROPS["C13"]["stub"] = PROPS["C13"].get("stub", []) + [
    "the preemptive mode of EDF/LSF is only shadow-probed (invoked on the live state of greedy-driven runs, where "
    "partially executed RUNNING tasks are offered again; answer checked and discarded)"]
PROPS["C18"]["streams"] = [G, CH, G_COND, CH_COND, PLAN, G_PRE]

# ------------------------------------------------------------------ C05: planners under "run the scheduler continuously"
PLAN_F0 = {"profile": "plan", "opts": dict(world.PLAN_OPTS, frequencies=[0], p_zero_runtime=0.5, lookaheads=[2, 5, 20],
                                             policies=["TetriSchedGurobi", "TetriSchedCPLEX", "TetriSchedGurobi", "ILP"])}
G_F0 = {"profile": "greedy", "opts": {"p_batch_loader": 0, "frequencies": [0, 0, 1], "zero_runtime": True}}
PROPS["C05"]["streams"] = [G, G_TIES, G_ENF, G_COND, PLAN, CW, PLAN_F0, PLAN_F0, G_F0]

# ------------------------------------------------------------------ crash-point enumeration (every cut of a base run)
from . import cuts  # noqa: E402

_MODS["cuts"] = type("M", (), {"run": staticmethod(cuts.run), "case": staticmethod(cuts.case),
                               "run_case": staticmethod(cuts.run_case_), "shrink_ops": staticmethod(cuts.shrink_case)})
CUTS_G = {"kind": "cuts", "profile": "greedy", "opts": {"p_batch_loader": 0, "max_nodes": 5, "graphs": 2}}
CUTS_CH = {"kind": "cuts", "profile": "chaos", "opts": {"p_batch_loader": 0, "max_nodes": 5, "graphs": 2}}
CUTS_ENF = {"kind": "cuts", "profile": "greedy", "opts": {"p_batch_loader": 0, "max_nodes": 5, "graphs": 2,
                                                           "p_enforce": 0.8, "p_drop": 0.5, "p_conditionals": 0.5}}
for _p in ("C08", "C05"):
    PROPS[_p].update({"run": any_run, "case": any_case, "run_case": any_run_case, "shrink": any_shrink})
PROPS["C08"]["streams"] = PROPS["C08"]["streams"] + [CUTS_G, CUTS_CH, CUTS_ENF]
PROPS["C05"]["streams"] = PROPS["C05"]["streams"] + [CUTS_ENF]


# ------------------------------------------------------------------ C12: EDF/FIFO with enforcement under contention
# tight deadlines, several graphs and invocations, runtimes of different length: hopeless tasks sort after
# feasible ones (a long task with a later deadline can be hopeless while a short earlier one is not)
G_ENF_TIGHT = {"profile": "greedy", "opts": {"p_batch_loader": 0, "p_enforce": 1.0, "greedy_policies": ["EDF", "FIFO"],
                                             "deadline_variances": [[0, 0], [0, 0], [0, 20], [10, 50]],
                                             "max_runtime": 9, "graphs": 3, "p_drop": 0.3}}
PROPS["C12"]["streams"] = [G_ENF, G_ENF_TIGHT, G_ENF_TIGHT, PLAN_ENF, PLAN_ENF, CW]
PROPS["C12"]["runs"] = {"quick": 1200, "thorough": 40000}
# ------------------------------------------------------------------ C11: running parents that have made progress
PLAN_TG_LONG = {"profile": "plan", "opts": dict(world.PLAN_OPTS, policy="TetriSchedGurobi", max_runtime=7,
                                                lookaheads=[2, 5, 20], frequencies=[1, 2, -1],
                                                policy_opts={"discretization": 1})}
PLAN_ILP_LONG = {"profile": "plan", "opts": dict(world.PLAN_OPTS, policy="ILP", max_runtime=7,
                                                 lookaheads=[2, 5, 20], frequencies=[1, 2, -1])}
PROPS["C11"]["streams"] = PROPS["C11"]["streams"] + [PLAN_TG_LONG, PLAN_ILP_LONG]
PROPS["C11"]["runs"] = {"quick": 1000, "thorough": 30000}

# ------------------------------------------------------------------ mixed-unit worlds (ms grid, deadlines in us/ms/s)
G_UNITS = {"profile": "greedy", "opts": {"p_batch_loader": 0, "single_worker_pools": True, "time_scale": 1000}}
G_UNITS_ENF = {"profile": "greedy", "opts": {"p_batch_loader": 0, "time_scale": 1000, "p_enforce": 0.8, "p_drop": 0.4}}
# (chaos on the ms grid is not used: a placement on a full worker is retried every microsecond, i.e. thousands
# of times per scaled time unit)
PROPS["C13"]["streams"] = [G_SINGLE, G_SINGLE, G_PRE, G_UNITS]
PROPS["C12"]["streams"] = PROPS["C12"]["streams"] + [G_UNITS_ENF]
PROPS["C08"]["streams"] = PROPS["C08"]["streams"] + [G_UNITS_ENF]
PROPS["C03"]["streams"] = PROPS["C03"]["streams"] + [G_UNITS_ENF]
PROPS["C16"]["streams"] = PROPS["C16"]["streams"] + [G_UNITS_ENF]

# ------------------------------------------------------------------ C07: several conditionals per graph, resolved at submission
G_COND_RESOLVE = {"profile": "greedy", "opts": {"p_batch_loader": 0, "p_conditionals": 1.0, "p_resolve": 1.0,
                                                "p_shuffle_nodes": 0.8, "shapes": ["sp", "sp", "forest"], "max_nodes": 10,
                                                "max_conds": 3}}
PROPS["C07"]["streams"] = [G_COND, CH_COND, G_COND_RESOLVE]

# ------------------------------------------------------------------ work-conserving harness policy with latency (measured only)
WC = {"profile": "wc", "opts": {"p_batch_loader": 0}}
PROPS["C05"]["streams"] = PROPS["C05"]["streams"] + [WC]

# cut enumeration is ~40 runs per case: keep its share of the C08 streams at about one in seven
PROPS["C08"]["streams"] = [s_ for s_ in PROPS["C08"]["streams"] if s_.get("kind") != "cuts"] * 2 + \
    [CUTS_G, CUTS_CH, CUTS_ENF]

# ------------------------------------------------------------------ C07: conditionals with an empty branch ("if ... then A else nothing")
# only under the greedy policies without zero-length tasks: when the join is scheduled *ahead* (planners,
# chaos, or the early offers of KF-C18-zero-length-parent) the "a join is ready once any parent completed"
# rule counts the conditional itself as a completed parent -- see DESIGN section 9
# (... and without deadline enforcement / drop_skipped_tasks: once a policy cancels the taken branch, the join of
# the empty branch becomes "the branch that ran" for the frontier and it and its successors are offered with stale
# estimates -- same root as KF-C07-empty-branch-join-starts-early; seen at VERIF_SEED=2 in C02 and C18)
G_COND_EMPTY = {"profile": "greedy", "opts": {"p_batch_loader": 0, "p_conditionals": 1.0, "p_empty_branch": 0.6,
                                              "p_zero_runtime": 0.0, "p_enforce": 0.0, "p_drop": 0.0}}
PROPS["C07"]["streams"] = [G_COND, CH_COND, G_COND_RESOLVE, G_COND_EMPTY]

# ------------------------------------------------------------------ C06: plans that are revised and then retracted
CH_REPLAN = {"profile": "chaos", "opts": {"p_batch_loader": 0, "chaos_replan": True}}
PROPS["C06"]["streams"] = PROPS["C06"]["streams"] + [CH_REPLAN]

# ------------------------------------------------------------------ side-input conditionals outside C02
# (the shape exposed two further defects, repaired by 4a344e1 and cad2521; see DESIGN section 6)
for _p in ("C05", "C06", "C07", "C08", "C18"):
    PROPS[_p]["streams"] = PROPS[_p]["streams"] + [G_SIDE]
for _p in ("C06", "C07", "C18"):
    PROPS[_p]["streams"] = PROPS[_p]["streams"] + [CH_SIDE]

# ------------------------------------------------------------------ TetriSched-CPLEX with its batching option
# Clockwork-style request streams (single-task graphs of a few models with batch-size strategies, deadlines
# around the boundary) planned by TetriSched-CPLEX with batching=True.  On general DAG worlds and for ILP the
# batching mode crashes or answers inconsistently in many runs of the unchanged tree (DESIGN section 9);
# those combinations are not generated.
CW_CPLEX_BATCH = {"profile": "clockwork", "opts": {"batch_planner": "TetriSchedCPLEX"}}
PROPS["C12"]["streams"] = PROPS["C12"]["streams"] + [CW_CPLEX_BATCH, CW_CPLEX_BATCH]
PROPS["C12"]["runs"] = {"quick": 1800, "thorough": 60000}
PROPS["C10"]["streams"] = PROPS["C10"]["streams"] + [CW_CPLEX_BATCH]

# ------------------------------------------------------------------ C14: a larger share of TetriSched-Gurobi
# worlds with a coarse grid invoked at instants that are not multiples of the grid step
PROPS["C14"]["streams"] = [PLAN_TETRI_G, PLAN_TETRI_C, PLAN_ILP_GOODPUT, PLAN_TETRI_G]
PROPS["C14"]["runs"] = {"quick": 1000, "thorough": 30000}


# ------------------------------------------------------------------ F4: the workload arrives in windows
# (harness loader `_Cumulative`, modelled on the bundled AlibabaLoader: every UPDATE_WORKLOAD adds the task graphs
# released within the next window to one growing Workload object; repaired defect c1d9023)
G_DYN = {"profile": "greedy", "opts": {"p_batch_loader": 1.0}}
CH_DYN = {"profile": "chaos", "opts": {"p_batch_loader": 1.0}}
G_DYN_ENF = {"profile": "greedy", "opts": {"p_batch_loader": 1.0, "p_enforce": 0.8, "p_drop": 0.5, "p_conditionals": 0.6}}
G_DYN_CL = {"profile": "greedy", "opts": {"p_batch_loader": 1.0, "release_kinds": ["closed_loop", "closed_loop", "fixed"],
                                          "p_enforce": 0.6, "p_drop": 0.4}}
for _p, _ss in (("C01", [CH_DYN]), ("C02", [G_DYN, CH_DYN]), ("C03", [CH_DYN]), ("C05", [G_DYN, G_DYN_ENF]),
                ("C06", [CH_DYN, G_DYN_ENF]), ("C08", [G_DYN, CH_DYN, G_DYN_ENF]), ("C18", [G_DYN, CH_DYN]),
                ("C19", [G_DYN_CL])):
    PROPS[_p]["streams"] = PROPS[_p]["streams"] + _ss
PLAN_DYN = {"profile": "plan", "opts": dict(world.PLAN_OPTS, p_batch_loader=1.0)}
for _p in ("C05", "C10", "C18"):
    PROPS[_p]["streams"] = PROPS[_p]["streams"] + [PLAN_DYN]

# ------------------------------------------------------------------ empty-branch conditionals outside C07
# (greedy, no zero-length tasks: see the note at G_COND_EMPTY; the completion-release oracle of C18 must see the
# join released by the tail of the taken branch although the conditional itself is a completed parent)
# (C18 only: in C02/C06 the early start of the join described by KF-C07-empty-branch-join-starts-early shows up as
# started_unreleased & co. whenever deadline enforcement or drop_skipped_tasks removes the taken branch; seen at
# VERIF_SEED=2; C07 carries that known finding, C02 and C06 do not generate the shape)
for _p in ("C18",):
    PROPS[_p]["streams"] = PROPS[_p]["streams"] + [G_COND_EMPTY]

# ------------------------------------------------------------------ tasks that fit on no worker of the cluster
# (an unplaceable parent decided together with its child: Z3 shadow probes; greedy runs that can never finish)
G_Z3_INF = {"profile": "greedy", "opts": {"p_batch_loader": 0, "p_z3_probe": 1.0, "max_nodes": 3, "graphs": 1,
                                          "max_invocations": 2, "infeasible_task": 0.35, "shapes": ["chain", "sp"]}}
G_INF = {"profile": "greedy", "opts": {"p_batch_loader": 0, "infeasible_task": 0.3, "max_nodes": 5, "graphs": 2,
                                       "p_enforce": 0.4, "p_drop": 0.4}}
PROPS["C11"]["streams"] = PROPS["C11"]["streams"] + [G_Z3_INF]
PROPS["C10"]["streams"] = PROPS["C10"]["streams"] + [G_Z3_INF]
for _p in ("C05", "C06", "C18"):
    PROPS[_p]["streams"] = PROPS[_p]["streams"] + [G_INF]

# ------------------------------------------------------------------ C07: empty branches resolved at submission
G_COND_EMPTY_RESOLVE = {"profile": "greedy", "opts": {"p_batch_loader": 0, "p_conditionals": 1.0, "p_empty_branch": 0.6,
                                                      "p_zero_runtime": 0.0, "p_resolve": 1.0, "max_conds": 3,
                                                      "p_enforce": 0.0, "p_drop": 0.0,
                                                      "p_shuffle_nodes": 0.5}}
PROPS["C07"]["streams"] = PROPS["C07"]["streams"] + [G_COND_EMPTY_RESOLVE]

# ------------------------------------------------------------------ side inputs that also feed a task after the join
G_SIDE2 = {"profile": "greedy", "opts": {"p_batch_loader": 0, "p_conditionals": 1.0, "p_side_input": 0.8,
                                         "p_side_after_join": 0.8, "shapes": ["sp", "sp", "forest"], "max_nodes": 8}}
CH_SIDE2 = {"profile": "chaos", "opts": {"p_batch_loader": 0, "p_conditionals": 1.0, "p_side_input": 0.8,
                                         "p_side_after_join": 0.8, "shapes": ["sp", "sp", "forest"], "max_nodes": 8}}
PROPS["C02"]["streams"] = PROPS["C02"]["streams"] + [G_SIDE2, CH_SIDE2]
for _p in ("C05", "C06", "C18"):
    PROPS[_p]["streams"] = PROPS[_p]["streams"] + [G_SIDE2]

# ------------------------------------------------------------------ C05: a side input that is still waiting when its graph completes
# (one worker, several invocations in flight, the side input of a branch head needs the whole worker: when the
# other branch is taken the graph's sinks complete while that input is still RELEASED; it must still be run)
G_SIDE_HEAVY = {"profile": "greedy", "opts": {"p_batch_loader": 0, "p_conditionals": 1.0, "p_side_input": 1.0,
                                              "heavy_side_input": True, "pools": 1, "workers": 1, "graphs": 3,
                                              "max_nodes": 5, "shapes": ["sp", "forest"], "max_conds": 1,
                                              "p_zero_runtime": 0.0, "p_variance": 0.0,
                                              "release_kinds": ["fixed", "fixed", "poisson"], "max_invocations": 8,
                                              "p_enforce": 0.0, "p_drop": 0.0,
                                              "greedy_policies": ["LSF", "LSF", "EDF", "FIFO"]}}
PROPS["C05"]["streams"] = PROPS["C05"]["streams"] + [G_SIDE_HEAVY] * 3
PROPS["C18"]["streams"] = PROPS["C18"]["streams"] + [G_SIDE_HEAVY]

# ------------------------------------------------------------------ task graphs whose sources arrive at different instants
G_STAGGER = {"profile": "greedy", "opts": {"p_batch_loader": 0, "stagger_sources": True,
                                           "shapes": ["forest", "dag", "forest"], "max_nodes": 6}}
CH_STAGGER = {"profile": "chaos", "opts": {"p_batch_loader": 0, "stagger_sources": True,
                                           "shapes": ["forest", "dag", "forest"], "max_nodes": 6}}
PROPS["C18"]["streams"] = PROPS["C18"]["streams"] + [G_STAGGER, CH_STAGGER]
PROPS["C02"]["streams"] = PROPS["C02"]["streams"] + [G_STAGGER]
PROPS["C05"]["streams"] = PROPS["C05"]["streams"] + [G_STAGGER]

# ------------------------------------------------------------------ worlds instantiated by the project's own loaders
# (the spec is rendered as YAML/JSON -- optional attributes spelled out or left out -- and loaded by WorkloadLoader /
# WorkerLoader; the simulator gets the real loader object; expectations still come from the spec)
G_LOADER = {"profile": "greedy", "opts": {"p_batch_loader": 0, "via_loader": True, "p_conditionals": 0.5}}
for _p in ("C02", "C05", "C06", "C07", "C08", "C18"):
    PROPS[_p]["streams"] = PROPS[_p]["streams"] + [G_LOADER]

# ------------------------------------------------------------------ C15/C12: requests whose SLO only the faster strategies can meet
CW_SLO = {"profile": "clockwork", "opts": {"p_short_slo": 0.7}}
PROPS["C15"]["streams"] = [CW, CW_SLO]
PROPS["C12"]["streams"] = PROPS["C12"]["streams"] + [CW_SLO]

# ------------------------------------------------------------------ conditionals with a side output (a sink on one arm only)
# C07 only, greedy only, no zero-length tasks, no enforcement/drop: a sink on an untaken arm makes the simulator
# regard the whole graph as cancelled, and whenever a placement of the taken arm then fires before its task is
# ready the rest of the graph is abandoned (KF-C05-arm-only-sink-graph-abandoned; seen through C05 at VERIF_SEED=1
# and through C07's join_cancelled at VERIF_SEED=5, where it is recorded as KF-C07-arm-only-sink-graph-abandoned)
G_COND_OUT = {"profile": "greedy", "opts": {"p_batch_loader": 0, "p_conditionals": 1.0, "p_side_output": 0.7,
                                            "p_enforce": 0.0, "p_drop": 0.0, "p_zero_runtime": 0.0}}
PROPS["C07"]["streams"] = PROPS["C07"]["streams"] + [G_COND_OUT, G_COND_OUT]

# ------------------------------------------------------------------ requests that name a resource instance by its id, next to generic ones
G_IDS = {"profile": "greedy", "opts": {"p_batch_loader": 0, "p_id_specific": 0.5}}
CH_IDS = {"profile": "chaos", "opts": {"p_batch_loader": 0, "p_id_specific": 0.5}}
PROPS["C01"]["streams"] = PROPS["C01"]["streams"] + [G_IDS, CH_IDS]
PROPS["C04"]["streams"] = PROPS["C04"]["streams"] + [G_IDS]
PROPS["C08"]["streams"] = PROPS["C08"]["streams"] + [G_IDS]
PROPS["C13"]["streams"] = PROPS["C13"]["streams"] + [dict(G_IDS, opts=dict(G_IDS["opts"], single_worker_pools=True))]

# ------------------------------------------------------------------ C08: requests naming a type both by id and generically
# (only here: on a busy worker the unchanged tree can fail half-way through such a request -- KF-C04 -- and the
# run crashes; crashed runs are not judged by C08, completed ones are)
G_MIXED = {"profile": "greedy", "opts": {"p_batch_loader": 0, "p_id_specific": 0.8, "p_mixed_request": 0.8,
                                         "max_nodes": 5, "graphs": 2}}
PROPS["C08"]["streams"] = PROPS["C08"]["streams"] + [G_MIXED]

# ------------------------------------------------------------------ C03: plans revised while a placement is being retried
PROPS["C03"]["streams"] = PROPS["C03"]["streams"] + [CH_REPLAN, CH_REPLAN]
PROPS["C03"]["runs"] = {"quick": 2000, "thorough": 60000}

# ------------------------------------------------------------------ C10: keep the planners' share up (dilution check: C10b had slipped)
PROPS["C10"]["streams"] = PROPS["C10"]["streams"] + [PLAN_ILP, PLAN_ENF]
PROPS["C10"]["runs"] = {"quick": 1500, "thorough": 40000}
