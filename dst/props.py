"""Per-property configuration: which worlds are generated, how many, what counts as a
non-trivial case, how a failing case is minimised and replayed."""
from . import engine, runner, shrink, world


def world_summary(w):
    return {"policy": w["policy"], "sim": w["sim"],
            "flags": {k: v for k, v in w["flags"].items() if v not in (False, 0, [], -1, None)},
            "cluster": [[len(wk["resources"]) for wk in p["workers"]] for p in w["cluster"]["pools"]],
            "graphs": [{"name": g["name"], "shape": g["shape"], "nodes": len(g["nodes"]),
                        "release": g["release"],
                        "edges": [[n["name"], n["children"]] for n in g["nodes"]]} for g in w["graphs"]],
            "faults": w["faults"]}


def world_case(prop, seed, stream):
    return world.gen_world(seed, stream["profile"], dict(stream.get("opts", {})))


def world_run(prop, seed, stream):
    w = world_case(prop, seed, stream)
    r = runner.run_world(w)
    r["sample"] = world_summary(w)
    return r


def world_run_case(prop, case):
    return runner.run_world(case)


def world_shrink(prop, case, v):
    known = engine.load_known()
    was_known = engine.match_known(v, known) is not None

    def still(w):
        r = runner.run_world(w)
        for x in r["violations"]:
            if x["property"] == prop and x["oracle"] == v["oracle"]:
                if (engine.match_known(x, known) is not None) == was_known:
                    return True
        return False

    return shrink.shrink(case, still)


def W(streams, quick, thorough, rule, nontrivial=None, **kw):
    d = {"streams": streams, "runs": {"quick": quick, "thorough": thorough}, "rule": rule,
         "run": world_run, "case": world_case, "run_case": world_run_case, "shrink": world_shrink}
    if nontrivial:
        d["nontrivial"] = nontrivial
    d.update(kw)
    return d


G = {"profile": "greedy", "opts": {"p_batch_loader": 0}}
G_TIES = {"profile": "greedy", "opts": {"p_batch_loader": 0, "max_runtime": 3}}
G_COND = {"profile": "greedy", "opts": {"p_batch_loader": 0, "p_conditionals": 1.0}}
G_ENF = {"profile": "greedy", "opts": {"p_batch_loader": 0, "p_enforce": 0.8, "p_drop": 0.5}}
G_SINGLE = {"profile": "greedy", "opts": {"p_batch_loader": 0, "single_worker_pools": True}}
CH = {"profile": "chaos", "opts": {"p_batch_loader": 0}}
CH_COND = {"profile": "chaos", "opts": {"p_batch_loader": 0, "p_conditionals": 1.0}}

FP_RULE = ("worlds are generated swarm-style from sha256(seed:property:i); a case is non-trivial when "
           "%s; distinct = distinct fingerprints of (graph shapes x sizes x release kinds x "
           "cluster shape x policy+options x flag mix x fault mix x outcome x probes reached)")

PROPS = {
    "C01": W([G, G, CH, G_TIES], 1600, 60000, FP_RULE % "at least one task was placed on a worker",
             lambda r: r["stats"].get("started", 0) > 0),
    "C02": W([G, CH, G_COND, CH_COND], 1600, 60000,
             FP_RULE % "a task with predecessors (or a join) started",
             lambda r: r["stats"].get("started", 0) > 1),
    "C03": W([G_TIES, G, CH, G_TIES], 1600, 60000, FP_RULE % "at least one task finished",
             lambda r: r["stats"].get("finished", 0) > 0),
    "C05": W([G, G_TIES, G_ENF, G_COND], 1600, 60000,
             FP_RULE % "the run executed at least one scheduler invocation under a bundled policy",
             lambda r: r["stats"].get("invocations", 0) > 0),
    "C06": W([G_ENF, CH, G_COND, CH_COND], 1600, 60000,
             FP_RULE % "at least one task changed state twice or a task was cancelled",
             lambda r: r["stats"].get("started", 0) > 0 or r["stats"].get("cancelled", 0) > 0),
    "C07": W([G_COND, CH_COND], 1600, 60000, FP_RULE % "at least one conditional task completed",
             lambda r: r["probes"].get("conditional_resolved", 0) > 0),
    "C08": W([G, G_ENF, G_COND, CH], 1200, 40000, FP_RULE % "the trace holds at least one TASK_FINISHED or "
             "TASK_CANCEL row", lambda r: r["stats"].get("finished", 0) + r["stats"].get("cancelled", 0) > 0),
    "C13": W([G_SINGLE], 1600, 60000, FP_RULE % "an invocation on single-worker pools left a task unplaced",
             lambda r: r["probes"].get("c13_unplaced_task_checked", 0) > 0),
    "C18": W([G, CH, G_COND, CH_COND], 1600, 60000, FP_RULE % "the frontier was queried with >=1 task offered",
             lambda r: r["stats"].get("invocations", 0) > 0),
}


def _lib(mod, quick, thorough, rule, **kw):
    d = {"streams": [{"profile": "lib"}], "runs": {"quick": quick, "thorough": thorough}, "rule": rule,
         "run": mod.run, "case": mod.case, "run_case": mod.run_case, "shrink": mod.shrink_ops,
         "nontrivial": lambda r: r["stats"].get("started", 0) > 0}
    d.update(kw)
    return d


from . import lib16  # noqa: E402

PROPS["C16"] = _lib(
    lib16, 30000, 1500000,
    "seeded operation histories (<=40 queue operations: add/next/remove/in-place re-timing+reheapify/peek/"
    "next-of-type over events of all types at few distinct times and task names, then <=15 EventTime algebra "
    "operations on values in random units incl. negatives and the invalid marker); non-trivial = at least one "
    "event was popped; distinct = distinct (probes reached, history length bucket, #event types, #times, first "
    "six operations). The same pop-order oracle also runs online in every simulated run of C01-C08.",
    real=["simulator.EventQueue/Event/EventType", "utils.EventTime"], stub=[])
