"""Delta debugging of a failing world spec while the same violation signature persists."""
import copy
import time

from . import world as W


def _valid(world):
    if not world["graphs"]:
        return False
    for g in world["graphs"]:
        if not g["nodes"]:
            return False
        names = {n["name"] for n in g["nodes"]}
        for n in g["nodes"]:
            if any(c not in names for c in n["children"]):
                return False
            if n["profile"] not in world["profiles"]:
                return False
            if n.get("conditional"):
                if len(n["children"]) < 2:
                    return False
                byname = {x["name"]: x for x in g["nodes"]}
                if abs(sum(byname[c].get("probability", 1.0) for c in n["children"]) - 1.0) > 1e-12:
                    return False
    if not world["cluster"]["pools"] or any(not p["workers"] for p in world["cluster"]["pools"]):
        return False
    for p in world["profiles"].values():
        if not p["strategies"]:
            return False
    return True


def candidates(world):
    """yield (description, candidate world) from coarse to fine"""
    w = world
    # drop graphs
    if len(w["graphs"]) > 1:
        for i in range(len(w["graphs"])):
            c = copy.deepcopy(w)
            del c["graphs"][i]
            yield f"drop graph {i}", c
    # invocations / concurrency
    for i, g in enumerate(w["graphs"]):
        rel = g["release"]
        if rel.get("invocations", 1) > 1:
            for n in (1, rel["invocations"] // 2, rel["invocations"] - 1):
                if 1 <= n < rel["invocations"]:
                    c = copy.deepcopy(w)
                    c["graphs"][i]["release"]["invocations"] = n
                    if "concurrency" in rel:
                        c["graphs"][i]["release"]["concurrency"] = min(rel["concurrency"], n)
                    yield f"graph {i} invocations {n}", c
        if rel["type"] not in ("fixed", "closed_loop"):
            c = copy.deepcopy(w)
            c["graphs"][i]["release"] = {"type": "fixed", "period": 1, "invocations":
                                         rel.get("invocations", 2), "start": rel.get("start", 0)}
            yield f"graph {i} fixed release", c
        if rel.get("start", 0) > 0:
            c = copy.deepcopy(w)
            c["graphs"][i]["release"]["start"] = 0
            yield f"graph {i} start 0", c
        if rel.get("concurrency", 1) > 1:
            c = copy.deepcopy(w)
            c["graphs"][i]["release"]["concurrency"] = 1
            yield f"graph {i} concurrency 1", c
    # drop nodes: sinks first (ordinary, not a terminal, parent not conditional with 2 kids)
    for i, g in enumerate(w["graphs"]):
        byname = {n["name"]: n for n in g["nodes"]}
        parents = {n["name"]: [] for n in g["nodes"]}
        for n in g["nodes"]:
            for c_ in n["children"]:
                parents[c_].append(n["name"])
        for n in g["nodes"]:
            if n.get("conditional") or n.get("terminal"):
                continue
            if any(byname[p].get("conditional") for p in parents[n["name"]]) and \
                    not (len(n["children"]) == 1 and not byname[n["children"][0]].get("terminal")):
                continue
            c = copy.deepcopy(w)
            cg = c["graphs"][i]
            cn = {x["name"]: x for x in cg["nodes"]}
            kids = cn[n["name"]]["children"]
            for p in parents[n["name"]]:
                pc = cn[p]["children"]
                idx = pc.index(n["name"])
                pc[idx:idx + 1] = [k for k in kids if k not in pc]
                if cn[p].get("conditional") and kids:
                    cn[kids[0]]["probability"] = cn[n["name"]].get("probability", 1.0)
            cg["nodes"] = [x for x in cg["nodes"] if x["name"] != n["name"]]
            yield f"graph {i} drop node {n['name']}", c
        # collapse a whole conditional construct into its conditional node
        for n in g["nodes"]:
            if n.get("conditional"):
                c = copy.deepcopy(w)
                cg = c["graphs"][i]
                cn = {x["name"]: x for x in cg["nodes"]}
                # find matching terminal by walking first children with depth counting
                depth, cur, term = 0, n["children"][0], None
                guard = 0
                while guard < 100:
                    guard += 1
                    nd = cn[cur]
                    if nd.get("terminal"):
                        if depth == 0:
                            term = cur
                            break
                        depth -= 1
                    if nd.get("conditional"):
                        depth += 1
                    if not nd["children"]:
                        break
                    cur = nd["children"][0]
                if term is None:
                    continue
                # nodes strictly between
                seen, st = set(), list(n["children"])
                while st:
                    x = st.pop()
                    if x in seen or x == term:
                        continue
                    seen.add(x)
                    st.extend(cn[x]["children"])
                cn[n["name"]]["conditional"] = False
                cn[n["name"]]["children"] = list(cn[term]["children"])
                cg["nodes"] = [x for x in cg["nodes"] if x["name"] not in seen and x["name"] != term]
                yield f"graph {i} collapse conditional {n['name']}", c
        # drop an edge
        for n in g["nodes"]:
            if n.get("conditional"):
                continue
            for k in n["children"]:
                if byname[k].get("terminal"):
                    continue
                if len(parents[k]) > 1 or True:
                    c = copy.deepcopy(w)
                    cn = {x["name"]: x for x in c["graphs"][i]["nodes"]}
                    cn[n["name"]]["children"].remove(k)
                    yield f"graph {i} drop edge {n['name']}->{k}", c
    # strategies
    for name, p in w["profiles"].items():
        if len(p["strategies"]) > 1:
            for j in range(len(p["strategies"])):
                c = copy.deepcopy(w)
                del c["profiles"][name]["strategies"][j]
                yield f"profile {name} drop strategy {j}", c
    # cluster
    if len(w["cluster"]["pools"]) > 1:
        for i in range(len(w["cluster"]["pools"])):
            c = copy.deepcopy(w)
            del c["cluster"]["pools"][i]
            yield f"drop pool {i}", c
    for i, p in enumerate(w["cluster"]["pools"]):
        if len(p["workers"]) > 1:
            for j in range(len(p["workers"])):
                c = copy.deepcopy(w)
                del c["cluster"]["pools"][i]["workers"][j]
                yield f"pool {i} drop worker {j}", c
        for j, wk in enumerate(p["workers"]):
            if len(wk["resources"]) > 1:
                for k in range(len(wk["resources"])):
                    c = copy.deepcopy(w)
                    del c["cluster"]["pools"][i]["workers"][j]["resources"][k]
                    yield f"worker {wk['name']} drop resource {k}", c
    # requirements
    for name, p in w["profiles"].items():
        for j, s in enumerate(p["strategies"]):
            if len(s["req"]) > 1:
                for k in list(s["req"]):
                    c = copy.deepcopy(w)
                    del c["profiles"][name]["strategies"][j]["req"][k]
                    yield f"profile {name} strategy {j} drop req {k}", c
            for k, q in s["req"].items():
                if q > 1:
                    c = copy.deepcopy(w)
                    c["profiles"][name]["strategies"][j]["req"][k] = 1
                    yield f"profile {name} strategy {j} req {k}=1", c
            if s["runtime"] > 1:
                for nv in (1, s["runtime"] // 2):
                    if nv < s["runtime"]:
                        c = copy.deepcopy(w)
                        c["profiles"][name]["strategies"][j]["runtime"] = nv
                        yield f"profile {name} strategy {j} runtime {nv}", c
    # flags toward defaults
    d = W.default_flags()
    for k, v in w["flags"].items():
        if k in d and v != d[k]:
            c = copy.deepcopy(w)
            c["flags"][k] = d[k]
            yield f"flag {k} default", c
    for i, g in enumerate(w["graphs"]):
        if g.get("deadline_variance") not in ([0, 0], None):
            c = copy.deepcopy(w)
            c["graphs"][i]["deadline_variance"] = [0, 0]
            yield f"graph {i} deadline variance 0", c
    if w["sim"]["scheduler_frequency"] != -1:
        c = copy.deepcopy(w)
        c["sim"]["scheduler_frequency"] = -1
        yield "frequency -1", c
    pol = w["policy"]
    for k in list(pol):
        if k in ("name", "runtime", "plan_ahead", "discretization", "goal", "branch_policy"):
            continue
        if pol[k] not in (False, 0, 0.0, None):
            c = copy.deepcopy(w)
            c["policy"][k] = False if isinstance(pol[k], bool) else 0
            yield f"policy {k} off", c
    if w.get("loader", {}).get("kind") != "static":
        c = copy.deepcopy(w)
        c["loader"] = {"kind": "static"}
        c["flags"]["workload_update_interval"] = -1
        yield "static loader", c
    if w["sim"]["loop_timeout"] > 40:
        for nv in (w["sim"]["loop_timeout"] // 4, w["sim"]["loop_timeout"] // 2):
            c = copy.deepcopy(w)
            c["sim"]["loop_timeout"] = max(10, nv)
            if c["faults"].get("cut"):
                c["faults"]["cut"] = c["sim"]["loop_timeout"]
            yield f"timeout {nv}", c


def gc_profiles(world):
    used = {n["profile"] for g in world["graphs"] for n in g["nodes"]}
    world["profiles"] = {k: v for k, v in world["profiles"].items() if k in used}
    return world


def shrink(world, still_fails, max_runs=150, max_seconds=45):
    """still_fails(world) -> bool.  Returns (minimised world, runs used, steps taken)."""
    t0 = time.time()
    runs = 0
    steps = []
    cur = copy.deepcopy(world)
    improved = True
    while improved and runs < max_runs and time.time() - t0 < max_seconds:
        improved = False
        for desc, cand in candidates(cur):
            if runs >= max_runs or time.time() - t0 > max_seconds:
                break
            gc_profiles(cand)
            if not _valid(cand):
                continue
            runs += 1
            try:
                ok = still_fails(cand)
            except Exception:
                ok = False
            if ok:
                cur = cand
                steps.append(desc)
                improved = True
                break
    return cur, runs, steps
