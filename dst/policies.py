"""Construction of the bundled planning policies (ILP, TetriSched-Gurobi, TetriSched-CPLEX,
Clockwork) from the world spec, plus the solver seams: threads forced to 1, solver console
output off (both listed as stubs in the evidence), and the solver-choice perturbation
(fault kind F6) that makes a policy extract *another feasible point* of its own model."""
import os
import random

from . import env

_SEAMS = False
SOLVER_CHAOS = {"on": False, "rng": None, "count": 0, "alts_checked": 0, "hook": None}


class _OneCpu:
    @staticmethod
    def cpu_count():
        return 1

    def __getattr__(self, name):
        import multiprocessing

        return getattr(multiprocessing, name)


SOLVER_WALL_LIMIT = 25


LAST_SOLVE = {}


def install_seams():
    global _SEAMS
    if _SEAMS:
        return
    env.bootstrap()
    import sys

    for name in ("schedulers.ilp_scheduler", "schedulers.tetrisched_gurobi_scheduler",
                 "schedulers.tetrisched_cplex_scheduler"):
        m = sys.modules.get(name)
        if m is not None and hasattr(m, "multiprocessing"):
            m.multiprocessing = _OneCpu()
    try:
        import gurobipy as gp

        gp.setParam("OutputFlag", 0)
        orig = gp.Model.optimize

        def optimize(self, *a, **kw):
            try:
                self.Params.Threads = 1
                self.Params.Seed = 1
                # safety net in *real* seconds: the policies' own time limits read the fake wall clock and
                # never fire, and a signal raised inside a solver callback is swallowed by the solver
                self.Params.TimeLimit = SOLVER_WALL_LIMIT
            except Exception:
                pass
            r = orig(self, *a, **kw)
            try:
                # the policy's own incumbent and stopping gap (C14 accounts for what the MIP gap may leave out)
                LAST_SOLVE["obj"] = self.ObjVal if self.SolCount > 0 else None
                LAST_SOLVE["gap_param"] = self.Params.MIPGap
            except Exception:
                LAST_SOLVE["obj"] = None
            try:
                hit = self.Status == gp.GRB.TIME_LIMIT
            except Exception:
                hit = False
            if hit:
                raise RuntimeError("harness solver wall-clock limit reached (inconclusive run)")
            hook = SOLVER_CHAOS.get("hook")
            if hook is not None:
                hook(self, orig)
            return r

        gp.Model.optimize = optimize
    except Exception:
        pass
    _SEAMS = True


def build_planner(world, b):
    install_seams()
    from utils import EventTime
    from workload import BranchPredictionPolicy

    pol = world["policy"]
    name = pol["name"]
    US = lambda x: EventTime(int(x), EventTime.Unit.US)  # noqa
    fl = b.flags
    bp = {"worst": BranchPredictionPolicy.WORST_CASE, "best": BranchPredictionPolicy.BEST_CASE,
          "max": BranchPredictionPolicy.MAXIMUM, "random": BranchPredictionPolicy.RANDOM,
          "all": BranchPredictionPolicy.ALL}[pol.get("branch_policy", "worst")]
    if name == "ILP":
        from schedulers import ILPScheduler

        return ILPScheduler(runtime=US(pol.get("runtime", 0)), lookahead=US(pol.get("lookahead", 0)),
                            enforce_deadlines=bool(pol.get("enforce_deadlines")), policy=bp,
                            retract_schedules=bool(pol.get("retract")),
                            release_taskgraphs=bool(pol.get("release_taskgraphs")),
                            goal=pol.get("goal", "max_goodput"), batching=bool(pol.get("batching")),
                            time_limit=EventTime(20, EventTime.Unit.S), _flags=fl)
    if name == "TetriSchedGurobi":
        from schedulers import TetriSchedGurobiScheduler

        return TetriSchedGurobiScheduler(
            runtime=US(0), lookahead=US(pol.get("lookahead", 0)),
            enforce_deadlines=bool(pol.get("enforce_deadlines")), retract_schedules=bool(pol.get("retract")),
            release_taskgraphs=bool(pol.get("release_taskgraphs")), goal="max_goodput",
            time_limit=EventTime(20, EventTime.Unit.S), time_discretization=US(pol.get("discretization", 1)),
            plan_ahead=US(pol.get("plan_ahead", 10)), _flags=fl)
    if name == "TetriSchedCPLEX":
        from schedulers import TetriSchedCPLEXScheduler

        return TetriSchedCPLEXScheduler(
            runtime=US(0), lookahead=US(pol.get("lookahead", 0)),
            enforce_deadlines=bool(pol.get("enforce_deadlines")), retract_schedules=bool(pol.get("retract")),
            goal="max_goodput", batching=bool(pol.get("batching")),
            time_limit=EventTime(20, EventTime.Unit.S), time_discretization=US(pol.get("discretization", 1)),
            plan_ahead=US(pol.get("plan_ahead", 10)), _flags=fl)
    if name == "Clockwork":
        from schedulers import ClockworkScheduler

        return ClockworkScheduler(runtime=US(0), goal=pol.get("goal", "clockwork"), _flags=fl)
    raise ValueError(name)


# ----------------------------------------------------------------------------- F6
def arm_solver_chaos(ctx, rng):
    """after the policy's own solve, re-solve the *same constraint system* under a seeded random
    objective so that the policy's extraction code decodes another feasible point"""
    import gurobipy as gp
    from gurobipy import GRB

    def hook(model, orig_optimize):
        try:
            if model.Status not in (GRB.OPTIMAL, GRB.SUBOPTIMAL, GRB.INTERRUPTED) or model.SolCount == 0:
                return
            vs = model.getVars()
            expr = gp.LinExpr()
            for v in vs:
                if v.VType == GRB.BINARY:
                    expr.add(v, rng.uniform(-1.0, 1.0))
                elif v.VType == GRB.INTEGER:
                    if v.UB > 1e9:
                        v.UB = max(v.LB, 0) + 60
                    if v.LB < -1e9:
                        v.LB = -100
                    expr.add(v, rng.uniform(-0.05, 0.05))
            model.setObjective(expr, GRB.MAXIMIZE)
            model.Params.MIPGap = 1e-4
            orig_optimize(model)
            if model.Status == GRB.OPTIMAL and model.SolCount > 0:
                ctx.fault("solver_alternative_solution")
                model._solution_found = True
            else:
                ctx.fault("solver_alternative_failed")
        except gp.GurobiError as e:  # size-limited licence etc.
            ctx.fault("solver_alternative_error")
            raise

    SOLVER_CHAOS["hook"] = hook
    arm_cplex(ctx, rng)


def disarm_solver_chaos():
    SOLVER_CHAOS["hook"] = None
    SOLVER_CHAOS["cplex_hook"] = None


_CPX_PATCHED = False


def arm_cplex(ctx, rng):
    global _CPX_PATCHED
    try:
        import docplex.mp.model as cpxm
    except Exception:
        return
    if not _CPX_PATCHED:
        orig_solve = cpxm.Model.solve

        def solve(self, *a, **kw):
            sol = orig_solve(self, *a, **kw)
            hook = SOLVER_CHAOS.get("cplex_hook")
            if hook is not None and sol is not None:
                alt = hook(self, orig_solve)
                if alt is not None:
                    return alt
            return sol

        cpxm.Model.solve = solve
        _CPX_PATCHED = True

    def hook(model, orig_solve):
        terms = []
        for v in model.iter_binary_vars():
            terms.append(rng.uniform(-1.0, 1.0) * v)
        if not terms:
            return None
        model.maximize(model.sum(terms))
        model.clear_mip_starts()
        alt = orig_solve(model)
        if alt is not None:
            ctx.fault("solver_alternative_solution")
        else:
            ctx.fault("solver_alternative_failed")
        return alt

    SOLVER_CHAOS["cplex_hook"] = hook
