"""Crash-point enumeration (fault kind F5, exhaustive form): one base world is run to its natural end,
then re-run once for *every* microsecond T of its history (T = 1 .. end + 1, at most MAX_CUTS of them,
evenly thinned beyond that) with `loop_timeout = T`.  Every cut run is a complete, independent
simulated run with all monitors and post-run oracles on: the summary row and the trace must tell the
truth about the prefix that happened (C08), SIMULATOR_END must be exactly one and not after the
timeout (C05), ledgers balanced at every boundary (C01/C04), whatever the instant the run is cut at.
A violation found at cut T is handed to the ordinary world shrinker as the world with
`faults.cut = T`, so the replay file is a plain world."""
import copy
import hashlib

from . import runner, world as W

MAX_CUTS = 40


def gen_case(seed, stream):
    opts = dict(stream.get("opts", {}))
    opts["p_cut"] = 0.0
    w = W.gen_world(seed, stream["profile"], opts)
    return {"seed": seed, "world": w, "cut_list": None}


def _cut_world(w, t):
    c = copy.deepcopy(w)
    c["faults"]["cut"] = t
    c["sim"]["loop_timeout"] = t
    return c


def run_case(case):
    if "world" not in case:  # a plain (shrunk) world with faults.cut set
        return runner.run_world(case)
    w = case["world"]
    base = runner.run_world(copy.deepcopy(w))
    if base["outcome"] not in ("ended",):
        base["probes"]["cuts_base_not_ended"] = 1
        return base
    end = base["stats"]["sim_time_us"]
    cuts = case.get("cut_list")
    if cuts is None:
        cuts = list(range(1, min(end + 1, w["sim"]["loop_timeout"]) + 1))
        if len(cuts) > MAX_CUTS:
            step = len(cuts) / MAX_CUTS
            cuts = sorted({cuts[int(i * step)] for i in range(MAX_CUTS)})
    res = {"seed": case["seed"], "outcome": "ended", "violations": list(base["violations"]),
           "probes": dict(base["probes"]), "faults": dict(base["faults"]), "stats": dict(base["stats"]),
           "error": None, "trace_tail": base["trace_tail"]}
    seen = {(v["property"], v["oracle"]) for v in res["violations"]}
    sim_time = base["stats"]["sim_time_us"]
    ncut = 0
    for t in cuts:
        r = runner.run_world(_cut_world(w, t))
        ncut += 1
        sim_time += r["stats"].get("sim_time_us", 0)
        for k, v in r["probes"].items():
            res["probes"][k] = res["probes"].get(k, 0) + v
        for k, v in r["faults"].items():
            res["faults"][k] = res["faults"].get(k, 0) + v
        res["stats"]["pops"] = res["stats"].get("pops", 0) + r["stats"].get("pops", 0)
        res["stats"]["invocations"] = res["stats"].get("invocations", 0) + r["stats"].get("invocations", 0)
        if r["outcome"] not in ("ended",):
            res["probes"]["cut_run_" + r["outcome"]] = res["probes"].get("cut_run_" + r["outcome"], 0) + 1
            if r["outcome"] in ("crash", "livelock") and res["outcome"] == "ended":
                res["outcome"] = r["outcome"]
                res["error"] = f"at cut {t}: {r.get('error')}"
        for v in r["violations"]:
            key = (v["property"], v["oracle"])
            if key in seen:
                continue
            seen.add(key)
            v = dict(v)
            v["detail"] = f"[cut at loop_timeout={t}] " + v["detail"]
            v["cut"] = t
            res["violations"].append(v)
            res["trace_tail"] = r["trace_tail"]
    res["faults"]["timeout_cut_enumerated"] = ncut
    res["probes"]["cut_points_enumerated"] = ncut
    res["stats"]["sim_time_us"] = sim_time
    res["stats"]["cuts"] = ncut
    fp = (base["fingerprint"], min(ncut // 10, 6), tuple(sorted(seen)))
    res["fingerprint"] = hashlib.md5(repr(fp).encode()).hexdigest()[:16]
    return res


def run(prop, seed, stream):
    c = gen_case(seed, stream)
    r = run_case(c)
    from . import props

    r["sample"] = dict(props.world_summary(c["world"]), cuts=r["stats"].get("cuts"))
    return r


def case(prop, seed, stream):
    return gen_case(seed, stream)


def run_case_(prop, c):
    return run_case(c)


def shrink_case(prop, c, v):
    """locate the first cut that shows the violation and shrink that single cut world"""
    from . import props

    if "world" not in c:
        return props.world_shrink(prop, c, v)
    w = c["world"]
    t = v.get("cut")
    cand = [t] if t else []
    if not cand:
        r = run_case(c)
        for x in r["violations"]:
            if x["property"] == prop and x["oracle"] == v["oracle"] and x.get("cut"):
                cand = [x["cut"]]
        if not cand:
            return props.world_shrink(prop, copy.deepcopy(w), v)
    return props.world_shrink(prop, _cut_world(w, cand[0]), v)
