"""Deterministic-simulation-with-fault-injection harness for erdos-scheduling-simulator.

See /verif/DESIGN.md.  Nothing in this package is imported by /repo; the harness
imports /repo (path taken from ERDOS_REPO, default /repo) and observes it through
class-level wrappers installed by dst.monitor.
"""
