"""C15: Clockwork batch oracle (filled in later)."""


def check_c15(ctx, sched, now, task_pl, plist):
    return
