"""C15: Clockwork batch oracle, evaluated on every real ClockworkScheduler.schedule() return."""
from .monitor import _us, demand_of


def check_c15(ctx, sched, now, task_pl, plist):
    from utils import EventTime

    pools = {p.id: p for p in ctx.built.worker_pools.worker_pools}
    groups = {}
    for p in task_pl:
        if p.placement_type.name != "PLACE_TASK" or not p.is_placed():
            continue
        groups.setdefault(id(p.execution_strategy), []).append(p)
    # models this very answer evicts: the simulator applies EVICT/LOAD decisions before the task placements of
    # the same instant, so a batch of such a model would start on a worker where it is no longer loaded
    evicted = {}
    for p in plist:
        if p.placement_type.name == "EVICT_WORK_PROFILE":
            evicted[(p.worker_id, id(p.work_profile))] = _us(p.placement_time)
    placed_before = ctx.__dict__.setdefault("clockwork_placed", {})
    used_now = {}  # id(worker) -> demand already claimed by batches of this invocation
    for sid, ps in groups.items():
        st = ps[0].execution_strategy
        ctx.probe("c15_batch_checked")
        if len(ps) > 1:
            ctx.probe("c15_batch_gt1")
        profs = {id(p.task.profile) for p in ps}
        if len(profs) != 1:
            ctx.violate("C15", "mixed_models_in_batch",
                        f"Clockwork at t={now}: batch holds requests of {len(profs)} models: "
                        f"{[p.task.unique_name for p in ps]}", {})
        if len(ps) != st.batch_size:
            ctx.violate("C15", "batch_size_mismatch",
                        f"Clockwork at t={now}: batch of {len(ps)} requests placed with a strategy of batch size "
                        f"{st.batch_size}: {[p.task.unique_name for p in ps]}", {"more": len(ps) > st.batch_size})
        prof = ps[0].task.profile
        sigs = [(tuple(sorted(demand_of(x))), _us(x.runtime), x.batch_size) for x in prof.execution_strategies]
        if (tuple(sorted(demand_of(st))), _us(st.runtime), st.batch_size) not in sigs:
            ctx.violate("C15", "foreign_strategy", f"Clockwork at t={now}: batch strategy is not one of the model's", {})
        wids = {(p.worker_pool_id, p.worker_id) for p in ps}
        if len(wids) != 1:
            ctx.violate("C15", "batch_on_several_workers", f"Clockwork at t={now}: one batch spread over {wids}", {})
            continue
        pid, wid = next(iter(wids))
        pool = pools.get(pid)
        worker = None
        if pool is not None:
            for w in pool.workers:
                if w.id == wid:
                    worker = w
        if worker is None:
            ctx.violate("C15", "unknown_worker", f"Clockwork at t={now}: batch placed on unknown worker {wid}", {})
            continue
        if worker.is_available(prof) != EventTime.zero():
            ctx.violate("C15", "model_not_loaded",
                        f"Clockwork at t={now}: batch of model {prof.name} placed on {worker.name} where the model "
                        f"is not loaded (is_available={worker.is_available(prof)})", {})
        led_ = ctx.ledgers.get(id(worker))
        ready_at = getattr(led_, "load_ready", {}).get(id(prof)) if led_ is not None else None
        if ready_at is not None and now < ready_at:
            ctx.violate("C15", "model_still_loading",
                        f"Clockwork at t={now}: batch of model {prof.name} placed on {worker.name}, whose load of "
                        f"that model (declared loading time) completes at {ready_at}", {})
        if (wid, id(prof)) in evicted and evicted[(wid, id(prof))] <= now:
            ctx.violate("C15", "model_evicted_by_same_answer",
                        f"Clockwork at t={now}: batch of model {prof.name} placed on {worker.name} although the same "
                        f"answer evicts that model from it", {})
        led = ctx.ledgers.get(id(worker))
        if led is not None:
            used = dict(led.used_by_type())
            for n, q in used_now.get(id(worker), {}).items():
                used[n] = used.get(n, 0) + q
            for n, _, q in demand_of(st):
                if led.total_by_type.get(n, 0) - used.get(n, 0) < q:
                    ctx.violate("C15", "worker_cannot_hold_batch",
                                f"Clockwork at t={now}: batch needs {q} of {n} on {worker.name}, free "
                                f"{led.total_by_type.get(n, 0) - used.get(n, 0)}", {})
            u = used_now.setdefault(id(worker), {})
            for n, _, q in demand_of(st):
                u[n] = u.get(n, 0) + q
        dl = min(_us(p.task.deadline) for p in ps)
        if now + _us(st.runtime) > dl:
            ctx.violate("C15", "batch_misses_earliest_deadline",
                        f"Clockwork at t={now}: batch runtime {_us(st.runtime)} ends at {now + _us(st.runtime)} > "
                        f"earliest deadline {dl} of {[p.task.unique_name for p in ps]}", {})
        elif now + _us(st.runtime) == dl:
            ctx.probe("c15_exactly_tight_batch")
        for p in ps:
            if _us(p.placement_time) != now:
                ctx.violate("C15", "batch_not_placed_now", f"Clockwork at t={now}: {p.task.unique_name} placed at "
                            f"{_us(p.placement_time)}", {})
            if id(p.task) in placed_before:
                ctx.violate("C15", "request_placed_twice",
                            f"Clockwork at t={now}: {p.task.unique_name} placed again (first at "
                            f"{placed_before[id(p.task)]})", {})
            placed_before[id(p.task)] = now
