"""C16: operation histories over EventQueue (add / next / remove / in-place re-timing +
reheapify / peek / get_next_event_of_type) against a sorted-list reference, and EventTime
values created in random units against integer-microsecond arithmetic."""
import random

from . import env

UNITS = ["US", "MS", "S"]
MULT = {"US": 1, "MS": 1000, "S": 1000000}
TASK_TYPES = ["TASK_CANCEL", "TASK_FINISHED", "TASK_RELEASE", "TASK_PREEMPT", "TASK_MIGRATION",
              "TASK_PLACEMENT"]
PLAIN_TYPES = ["SIMULATOR_START", "EVICT_PROFILE", "UPDATE_WORKLOAD", "LOAD_PROFILE",
               "SCHEDULER_START", "SCHEDULER_FINISHED", "SIMULATOR_END", "LOG_UTILIZATION"]


def gen_history(seed, length=None):
    r = random.Random(f"{seed}:c16")
    n = length or r.randint(5, 40)
    ops = []
    ntimes = r.choice([2, 3, 5])
    names = [f"t{i}" for i in range(r.choice([2, 3, 4]))]
    r.shuffle(names)
    live = 0
    big = r.random() < 0.2
    for _ in range(n):
        k = r.random()
        if k < 0.40 or live == 0:
            unit = r.choice(UNITS) if r.random() < 0.3 else "US"
            t = r.randrange(ntimes) * (1 if unit != "US" else r.choice([1, 1000, 1000000]))
            if big:
                t = r.randrange(2 ** 40)
            if r.random() < 0.6:
                ops.append(["add", r.choice(TASK_TYPES), t, unit, r.choice(names)])
            else:
                ops.append(["add", r.choice(PLAIN_TYPES), t, unit, None])
            live += 1
        elif k < 0.60:
            ops.append(["next"])
            live -= 1
        elif k < 0.70:
            ops.append(["remove", r.randrange(64)])
            live -= 1
        elif k < 0.85:
            unit = "US"
            ops.append(["retime", r.randrange(64), r.randrange(ntimes) * r.choice([1, 1000]), unit])
        elif k < 0.92:
            ops.append(["peek"])
        else:
            ops.append(["next_of_type", r.choice(TASK_TYPES + PLAIN_TYPES)])
    # time-value algebra ops
    m = r.randint(3, 15)
    for _ in range(m):
        def val():
            unit = r.choice(UNITS)
            lim = (2 ** 52) // MULT[unit]
            c = r.random()
            if c < 0.15:
                t = -1
            elif c < 0.5:
                t = r.randint(-5, 5)
            elif c < 0.8:
                t = r.randint(-10 ** 6, 10 ** 6)
            else:
                t = r.randint(-lim, lim)
            return [t, unit]
        a_, b_, c_ = val(), val(), val()
        if r.random() < 0.4:
            # twins: the same instant (or a 1us neighbour) written in two different units -- the cases in
            # which a comparison / hash that does not normalise units exactly goes wrong
            cu = r.choice(["MS", "S"])
            fu = r.choice([u for u in UNITS if MULT[u] < MULT[cu]])
            t = r.choice([r.randint(0, 100), r.randint(-100, 1000), r.randint(0, (2 ** 52) // MULT[cu])])
            a_ = [t, cu]
            b_ = [t * (MULT[cu] // MULT[fu]) + r.choice([0, 0, 0, 1, -1]), fu]
            if r.random() < 0.5:
                a_, b_ = b_, a_
        ops.append(["alg", r.choice(["add", "sub", "cmp", "cmp", "hash", "to", "mul", "assoc"]), a_, b_, c_,
                    r.choice(UNITS), r.randint(-3, 7)])
    return {"seed": seed, "ops": ops}


def _us(t):
    return t.time * MULT[t.unit.name]


def run_history(case):
    """returns a result dict like runner.run_world"""
    env.bootstrap()
    from simulator import Event, EventQueue, EventType
    from utils import EventTime
    from workload import Job, Placement, Task

    violations = []
    probes = {}

    def vio(oracle, detail, cause=None):
        if not any(v["oracle"] == oracle for v in violations):
            violations.append({"property": "C16", "oracle": oracle, "detail": detail, "cause": cause or {}})

    def probe(k):
        probes[k] = probes.get(k, 0) + 1

    def ET(t, unit):
        return EventTime(t, getattr(EventTime.Unit, unit))

    q = EventQueue()
    job = Job(name="j")
    tasks = {}

    def task(name):
        if name not in tasks:
            tasks[name] = Task(name=name, task_graph="g", job=job, deadline=ET(10, "US"))
        return tasks[name]

    pending = []  # reference: the very event objects

    def key(e):
        return (_us(e.time), e.event_type.value, e.task.unique_name if e.task is not None else "")

    def ref_less(a, b):
        ka, kb = key(a), key(b)
        if ka[:2] != kb[:2]:
            return ka[:2] < kb[:2]
        if a.task is not None and b.task is not None:
            return ka[2] < kb[2]
        return False

    def is_min(e, among):
        return not any(ref_less(x, e) for x in among if x is not e)

    trace = []
    for op in case["ops"]:
        try:
            if op[0] == "add":
                _, tname, t, unit, name = op
                et = getattr(EventType, tname)
                tk = task(name) if name else None
                pl = None
                if tname in ("TASK_PLACEMENT", "TASK_MIGRATION"):
                    pl = Placement.create_task_placement(task=tk, placement_time=ET(t, unit), worker_pool_id="p")
                ev = Event(event_type=et, time=ET(t, unit), task=tk, placement=pl)
                q.add_event(ev)
                pending.append(ev)
            elif op[0] == "next":
                if not pending:
                    continue
                ev = q.next()
                if not any(ev is x for x in pending):
                    vio("pop_unknown", f"next() returned an event that is not pending: {ev}")
                    break
                if not is_min(ev, pending):
                    smaller = [x for x in pending if ref_less(x, ev)][0]
                    vio("pop_order", f"next() returned {key(ev)} while {key(smaller)} was pending",
                        {"after_retime": any(t[0] == "retime" for t in trace),
                         "after_remove": any(t[0] == "remove" for t in trace)})
                pending[:] = [x for x in pending if x is not ev]
                probe("pop")
                if len([x for x in pending if key(x)[0] == key(ev)[0]]) > 0:
                    probe("pop_with_same_time_pending")
            elif op[0] == "remove":
                if not pending:
                    continue
                ev = pending[op[1] % len(pending)]
                q.remove_event(ev)
                pending[:] = [x for x in pending if x is not ev]
                probe("remove")
            elif op[0] == "retime":
                if not pending:
                    continue
                ev = pending[op[1] % len(pending)]
                ev._time = ET(op[2], op[3])
                q.reheapify()
                probe("retime")
            elif op[0] == "peek":
                ev = q.peek()
                if not pending:
                    if ev is not None:
                        vio("peek_nonempty", "peek() on an empty queue returned an event")
                elif ev is None or not any(ev is x for x in pending) or not is_min(ev, pending):
                    vio("peek_order", f"peek() returned {key(ev) if ev else None}, not a minimum of the pending events")
            elif op[0] == "next_of_type":
                et = getattr(EventType, op[1])
                ev = q.get_next_event_of_type(et)
                same = [x for x in pending if x.event_type.value == et.value]
                if not same:
                    if ev is not None:
                        vio("next_of_type_spurious", f"get_next_event_of_type({op[1]}) returned an event")
                elif ev is None or not any(ev is x for x in same) or not is_min(ev, same):
                    vio("next_of_type_order", f"get_next_event_of_type({op[1]}) returned "
                        f"{key(ev) if ev else None}")
                probe("next_of_type")
            elif op[0] == "alg":
                check_algebra(op, ET, EventTime, vio, probe)
            if len(q) != len(pending):
                vio("length", f"len(queue)={len(q)} but {len(pending)} events are pending")
            trace.append(op)
        except Exception as e:  # noqa
            vio("exception", f"{op}: {type(e).__name__}: {e}", {"op": op[0], "exc": type(e).__name__})
            break
    # drain: the rest must come out in non-decreasing reference order
    last = None
    while pending and not violations:
        ev = q.next()
        if not is_min(ev, pending):
            vio("pop_order", f"drain: next() returned {key(ev)} out of order",
                {"after_retime": any(t[0] == "retime" for t in trace),
                 "after_remove": any(t[0] == "remove" for t in trace)})
        if last is not None and key(ev)[0] < last:
            vio("time_order", "drain: time went backwards")
        last = key(ev)[0]
        pending[:] = [x for x in pending if x is not ev]
    nq = sum(1 for o in case["ops"] if o[0] != "alg")
    fp = (tuple(sorted(probes)), min(nq // 5, 8), len({o[1] for o in case["ops"] if o[0] == "add"}),
          len({(o[2], o[3]) for o in case["ops"] if o[0] == "add"}))
    import hashlib

    return {"seed": case.get("seed"), "outcome": "ended", "violations": violations, "probes": probes,
            "faults": {}, "stats": {"ops": len(case["ops"]), "started": probes.get("pop", 0)},
            "fingerprint": hashlib.md5(repr((fp, tuple(tuple(map(str, o)) for o in case["ops"][:6]))).encode()).hexdigest()[:16],
            "trace_tail": [[i, 0, "OP", o] for i, o in enumerate(case["ops"])][-50:]}


def check_algebra(op, ET, EventTime, vio, probe):
    _, kind, a, b, c, unit, k = op
    A, B, C = ET(*a), ET(*b), ET(*c)
    ua, ub, uc = a[0] * MULT[a[1]], b[0] * MULT[b[1]], c[0] * MULT[c[1]]
    probe("alg_" + kind)
    if kind == "add":
        R = A + B
        if _us(R) != ua + ub:
            vio("add", f"{a}+{b} = {_us(R)}us, integers say {ua + ub}")
        if MULT[R.unit.name] != min(MULT[a[1]], MULT[b[1]]):
            vio("add_unit", f"{a}+{b} has unit {R.unit.name}")
    elif kind == "sub":
        R = A - B
        if _us(R) != ua - ub:
            vio("sub", f"{a}-{b} = {_us(R)}us, integers say {ua - ub}")
    elif kind == "cmp":
        if (A == B) != (ua == ub):
            vio("eq", f"{a}=={b} is {A == B}, integers say {ua == ub}")
        if (A < B) != (ua < ub):
            vio("lt", f"{a}<{b} is {A < B}, integers say {ua < ub}")
        if (A <= B) != (ua <= ub) or (A > B) != (ua > ub) or (A >= B) != (ua >= ub) or (A != B) != (ua != ub):
            vio("order_ops", f"derived comparison of {a},{b} disagrees with integers")
        # totality / antisymmetry
        if (A < B) and (B < A):
            vio("antisymmetry", f"{a}<{b} and {b}<{a}")
    elif kind == "hash":
        if ua == ub and hash(A) != hash(B):
            vio("hash", f"{a} == {b} but hashes differ")
        if hash(A) != hash(ET(ua, "US")):
            vio("hash_us", f"hash({a}) differs from the hash of the same instant in us")
        d = {A: 1}
        if (ET(ua, "US") in d) is not True:
            vio("dict_lookup", f"{a} not found by its microsecond twin")
    elif kind == "to":
        if MULT[unit] <= MULT[a[1]]:
            R = A.to(getattr(EventTime.Unit, unit))
            if _us(R) != ua or R.unit.name != unit:
                vio("to_finer", f"{a}.to({unit}) = {R.time}{R.unit.name}")
        else:
            try:
                R = A.to(getattr(EventTime.Unit, unit))
            except ValueError:
                probe("coarsening_refused")
            else:
                vio("to_coarser_not_refused", f"{a}.to({unit}) returned {R.time}{R.unit.name} instead of raising",
                    {"exact": ua % MULT[unit] == 0})
    elif kind == "mul":
        R = A * k
        if _us(R) != ua * k:
            vio("mul", f"{a}*{k} = {_us(R)}us")
    elif kind == "assoc":
        R1 = (A + B) + C
        R2 = A + (B + C)
        if _us(R1) != ua + ub + uc or _us(R2) != ua + ub + uc:
            vio("assoc", f"({a}+{b})+{c}: {_us(R1)} / {_us(R2)} vs {ua + ub + uc}")
        R3 = (A - B) + B
        if not (R3 == A):
            vio("sub_add_roundtrip", f"({a}-{b})+{b} != {a}")
        # transitivity sample
        xs = sorted([(ua, A), (ub, B), (uc, C)], key=lambda p: p[0])
        if not (xs[0][1] <= xs[1][1] <= xs[2][1]):
            vio("sort_order", "sorted by integer us is not sorted by EventTime")


# ---------------------------------------------------------------- engine glue
def run(prop, seed, stream):
    case = gen_history(seed)
    r = run_history(case)
    r["sample"] = case["ops"][:12]
    return r


def case(prop, seed, stream):
    return gen_history(seed)


def run_case(prop, c):
    return run_history(c)


def shrink_ops(prop, c, v, runner_fn=None):
    """ddmin over the operation list"""
    runner_fn = runner_fn or run_history
    ops = list(c["ops"])
    runs = 0

    def fails(o):
        nonlocal runs
        runs += 1
        cc = dict(c)
        cc["ops"] = o
        r = runner_fn(cc)
        return any(x["oracle"] == v["oracle"] for x in r["violations"])

    n = 2
    steps = []
    while len(ops) >= 2 and runs < 400:
        chunk = max(1, len(ops) // n)
        reduced = False
        for i in range(0, len(ops), chunk):
            cand = ops[:i] + ops[i + chunk:]
            if cand and fails(cand):
                ops = cand
                n = max(n - 1, 2)
                reduced = True
                steps.append(f"drop {chunk} ops at {i}")
                break
        if not reduced:
            if chunk == 1:
                break
            n = min(n * 2, len(ops))
    cc = dict(c)
    cc["ops"] = ops
    return cc, runs, steps
