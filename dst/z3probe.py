"""Z3 shadow probe (C10 / C11): the Z3 policy cannot be driven end-to-end (its placements carry no
execution strategy and the simulator dereferences it), so it is invoked on the live state of runs
driven by a greedy policy, its answer is checked and discarded.  Relies on (and checks) C10's "deciding
has no side effects"; the global `random` state is restored so that the driven run is unperturbed."""
import contextlib
import io
import random

from . import monitor
from .monitor import _us

_Z3_OK = None


def available():
    global _Z3_OK
    if _Z3_OK is None:
        try:
            import z3.z3  # noqa

            from schedulers import Z3Scheduler  # noqa

            _Z3_OK = True
        except Exception:
            _Z3_OK = False
    return _Z3_OK


def maybe_probe(ctx, sim_time, workload, worker_pools):
    if ctx.policy_name not in ("EDF", "FIFO", "LSF") or not available():
        return
    if not ctx.world.get("faults", {}).get("z3_probe"):
        return
    n = len(ctx.invocations)
    if n % 2 != 0:
        return
    from utils import EventTime
    from workload import BranchPredictionPolicy
    import z3.z3 as z3

    from schedulers import Z3Scheduler

    r = random.Random(f"{ctx.world['seed']}:z3:{n}")
    sched = getattr(ctx, "_z3", None)
    if sched is None:
        sched = Z3Scheduler(runtime=EventTime.zero(), lookahead=EventTime(r.choice([0, 0, 3]), EventTime.Unit.US),
                            enforce_deadlines=r.random() < 0.5, policy=BranchPredictionPolicy.WORST_CASE,
                            release_taskgraphs=r.random() < 0.3, goal="max_slack", _flags=ctx.built.flags)
        ctx._z3 = sched
    st = random.getstate()
    ctx.in_probe = True
    try:
        offer = workload.get_schedulable_tasks(sim_time, sched.lookahead, sched.preemptive, sched.retract_schedules,
                                               worker_pools, sched.policy, sched.branch_prediction_accuracy,
                                               sched.release_taskgraphs)
        if not (1 <= len(offer) <= 4):
            return
        from . import policymon

        before = policymon.snapshot(ctx)
        z3.set_param("rlimit", 3000000)
        try:
            with contextlib.redirect_stdout(io.StringIO()):
                placements = sched.schedule(sim_time, workload, worker_pools)
        except Exception as e:  # noqa
            ctx.violate("C10", "schedule_raised", f"Z3.schedule() at t={_us(sim_time)} raised {type(e).__name__}: "
                        f"{str(e)[:200]} (shadow probe on a state driven by {ctx.policy_name})",
                        {"policy": "Z3", "exc": type(e).__name__})
            return
        finally:
            z3.set_param("rlimit", 0)
        after = policymon.snapshot(ctx)
        ctx.probe("z3_probe")
        if before != after:
            ctx.violate("C10", "side_effect", f"Z3.schedule() at t={_us(sim_time)} changed live state: "
                        f"{policymon._first_diff(before, after)}", {"policy": "Z3"})
        monitor._safe(ctx, check, sched, _us(sim_time), list(placements), {id(t): t for t in offer})
    finally:
        ctx.in_probe = False
        random.setstate(st)


def check(ctx, sched, now, plist, offered):
    pools = {p.id: p for p in ctx.built.worker_pools.worker_pools}
    decided = {}
    for p in plist:
        if p.placement_type.name not in ("PLACE_TASK", "CANCEL_TASK"):
            continue
        t = p.task
        if id(t) in decided:
            ctx.violate("C10", "two_decisions_for_task", f"Z3 at t={now}: two decisions for {t.unique_name}",
                        {"policy": "Z3"})
        decided[id(t)] = p
        if id(t) not in offered:
            ctx.violate("C10", "decision_for_unoffered_task", f"Z3 at t={now}: decision for {t.unique_name} which "
                        f"was not offered", {"policy": "Z3", "state": t.state.name})
    for tid, t in offered.items():
        if t.state.name in ("VIRTUAL", "RELEASED") and tid not in decided:
            ctx.violate("C10", "offered_task_unanswered", f"Z3 at t={now}: offered {t.unique_name} got no decision",
                        {"policy": "Z3"})
    for p in plist:
        if p.placement_type.name != "PLACE_TASK" or not p.is_placed():
            continue
        t = p.task
        pool = pools.get(p.worker_pool_id)
        if pool is None:
            ctx.violate("C10", "unknown_pool", f"Z3: {t.unique_name} placed on unknown pool", {"policy": "Z3"})
            continue
        if p.worker_id is not None and not any(w.id == p.worker_id for w in pool.workers):
            ctx.violate("C10", "worker_not_in_pool", f"Z3: {t.unique_name} placed on a worker outside its pool",
                        {"policy": "Z3"})
        pt = _us(p.placement_time)
        if pt is None or pt < now:
            ctx.violate("C10", "placement_in_past", f"Z3 at t={now}: {t.unique_name} placed at {pt}", {"policy": "Z3"})
        rel = _us(t.release_time)
        if rel is not None and rel >= 0 and pt is not None and pt < rel:
            ctx.violate("C10", "placement_before_release", f"Z3 at t={now}: {t.unique_name} placed at {pt}, release "
                        f"{rel}", {"policy": "Z3"})
        # C11: worst-case runtime of co-decided parents, expected finish of running ones
        s = ctx.shadow(t)
        node = ctx.nodes.get(s.base, {}).get(s.node, {})
        for pname, ps in ctx.parent_shadows(s):
            if ps is None or ps.task.state.name in ("COMPLETED", "CANCELLED"):
                continue
            q = decided.get(id(ps.task))
            if q is not None:
                ctx.probe("z3_c11_codecided")
                if not q.is_placed():
                    if not node.get("terminal"):
                        ctx.violate("C11", "child_placed_without_parent",
                                    f"Z3 at t={now}: {t.unique_name} placed while its co-decided predecessor "
                                    f"{ps.task.unique_name} is unplaced", {"policy": "Z3"})
                    continue
                worst = max(_us(x.runtime) for x in ps.task.available_execution_strategies)
                fastest = min(_us(x.runtime) for x in ps.task.available_execution_strategies)
                if pt is not None and pt < _us(q.placement_time) + fastest:
                    ctx.violate("C11", "child_before_parent_end",
                                f"Z3 at t={now}: {t.unique_name} starts at {pt}, predecessor {ps.task.unique_name} "
                                f"placed at {_us(q.placement_time)} cannot end before "
                                f"{_us(q.placement_time) + fastest} (worst case {_us(q.placement_time) + worst})",
                                {"policy": "Z3"})
            elif ps.task.state.name == "RUNNING" and not ctx.variance:
                fin = now + _us(ps.task.remaining_time)
                if pt is not None and pt < fin:
                    ctx.violate("C11", "child_before_running_parent_end",
                                f"Z3 at t={now}: {t.unique_name} starts at {pt}, running predecessor "
                                f"{ps.task.unique_name} finishes at {fin}", {"policy": "Z3"})
