"""Seeded world generator (swarm style).  A *world spec* is a JSON-serialisable dict and
is all that is needed to reproduce a run:  gen_world(seed, profile) -> spec.

Every feature is varied per run and sometimes switched off entirely.  Combinations the
code explicitly refuses (see DESIGN.md section 2.2) are not generated.
"""
import random

RES_TYPES = ["Slot", "GPU", "RAM"]
# probability vectors whose float sum is exactly 1.0 (the code raises otherwise)
PROB_VECS = {
    2: [[1.0, 0.0], [0.0, 1.0], [0.5, 0.5], [0.25, 0.75], [0.875, 0.125]],
    3: [[0.25, 0.25, 0.5], [0.0, 0.5, 0.5], [0.5, 0.0, 0.5], [1.0, 0.0, 0.0],
        [0.125, 0.375, 0.5], [0.5, 0.5, 0.0], [0.125, 0.875, 0.0], [0.0, 1.0, 0.0], [0.0, 0.0, 1.0]],
}

GREEDY = ["EDF", "FIFO", "LSF"]


def _rng(seed, stream):
    return random.Random(f"{seed}:{stream}")


# --------------------------------------------------------------------------- cluster
def gen_cluster(r, opts):
    ntypes = r.choice([1, 1, 2, 2, 3])
    types = RES_TYPES[:ntypes]
    npools = opts.get("pools") or r.choice([1, 1, 2, 2, 3])
    pools = []
    for p in range(npools):
        nworkers = opts.get("workers") or (r.choice([1, 1, 2]) if opts.get("plan") else r.choice([1, 1, 2, 2, 3]))
        if opts.get("single_worker_pools"):
            nworkers = 1
        workers = []
        for w in range(nworkers):
            res = []
            for t in types:
                if t != types[0] and r.random() < 0.15:
                    continue
                ninst = 2 if r.random() < 0.25 else 1
                for i in range(ninst):
                    q = r.choice([1, 1, 2, 2, 3, 4]) if r.random() > 0.05 else 0
                    # explicit ids half of the time, generated uuids otherwise
                    rid = f"{t[0].lower()}{i}" if r.random() < 0.5 else None
                    res.append({"name": t, "id": rid, "q": q})
            workers.append({"name": f"P{p}W{w}", "resources": res})
        pools.append({"name": f"P{p}", "workers": workers})
    # make sure at least one worker has a positive amount of the first type
    if all(x["q"] == 0 for p in pools for w in p["workers"] for x in w["resources"]
           if x["name"] == types[0]):
        pools[0]["workers"][0]["resources"][0]["q"] = 2
    return {"types": types, "pools": pools}


def worker_totals(worker):
    tot = {}
    for x in worker["resources"]:
        tot[x["name"]] = tot.get(x["name"], 0) + x["q"]
    return tot


def fits_empty(req, worker):
    tot = worker_totals(worker)
    return all(tot.get(k.split(":")[0], 0) >= v for k, v in req.items())


def feasible_somewhere(req, cluster):
    return any(fits_empty(req, w) for p in cluster["pools"] for w in p["workers"])


# ------------------------------------------------------------------------ strategies
def gen_strategy(r, cluster, opts, feasible=True):
    workers = [w for p in cluster["pools"] for w in p["workers"]]
    for _ in range(20):
        anchor = r.choice(workers)
        tot = {k: v for k, v in worker_totals(anchor).items() if v > 0}
        if tot:
            break
    else:
        tot = {cluster["types"][0]: 1}
    names = sorted(tot)
    k = 1 if len(names) == 1 or r.random() < 0.6 else min(len(names), 2)
    chosen = r.sample(names, k)
    req = {}
    for n in chosen:
        hi = tot[n]
        q = r.randint(1, hi) if r.random() < 0.7 else hi
        req[f"{n}:any"] = q
    if feasible and opts.get("p_id_specific") and r.random() < opts["p_id_specific"]:
        # the request names one instance of the anchor worker by its id instead of asking for any instance
        named = [x for x in anchor["resources"] if x["id"] and x["q"] > 0 and f"{x['name']}:any" in req]
        if named:
            x = r.choice(named)
            keep_any = opts.get("p_mixed_request") and r.random() < opts["p_mixed_request"]
            if not keep_any:
                del req[f"{x['name']}:any"]
            req[f"{x['name']}:{x['id']}"] = r.randint(1, x["q"])
            if keep_any:
                # one request naming the type both by id and generically: only as much as the anchor worker can
                # serve jointly when it is empty (on a busy worker the unchanged tree may fail half-way through
                # such a request, KF-C04-mixed-any-and-specific-id; those runs crash and are not C08's business)
                tot_ = worker_totals(anchor).get(x["name"], 0)
                req[f"{x['name']}:any"] = max(1, min(req[f"{x['name']}:any"], tot_ - req[f"{x['name']}:{x['id']}"]))
                if tot_ - req[f"{x['name']}:{x['id']}"] < 1:
                    del req[f"{x['name']}:any"]
    if not feasible:
        n = r.choice(names)
        req[f"{n}:any"] = max(worker_totals(w).get(n, 0) for w in workers) + r.randint(1, 2)
    rt_hi = opts.get("max_runtime", 6)
    lo = 0 if opts.get("zero_runtime") else 1
    rt = r.randint(lo, rt_hi) if r.random() < 0.8 else r.choice([lo, 1, 1, 2])
    return {"req": req, "runtime": rt, "batch": 1}


def gen_profile(r, name, cluster, opts):
    n = r.choice([1, 1, 1, 2, 2, 3]) if not opts.get("one_strategy") else 1
    if opts.get("plan"):
        n = min(n, 2)
    strategies = []
    for i in range(n):
        feas = True
        if i > 0 and r.random() < 0.15:
            feas = False  # an extra strategy that fits nowhere
        strategies.append(gen_strategy(r, cluster, opts, feasible=feas))
    if opts.get("infeasible_task") and r.random() < opts["infeasible_task"]:
        strategies = [gen_strategy(r, cluster, opts, feasible=False)]
    r.shuffle(strategies)
    return {"name": name, "strategies": strategies, "loading": []}


# ---------------------------------------------------------------------------- graphs
class _GB:
    """Builds a graph out of single-entry/single-exit blocks so that every branch of
    a conditional feeds the terminal through exactly one node."""

    def __init__(self, r, gname, opts):
        self.r = r
        self.g = gname
        self.nodes = []  # dicts: name, children, conditional, terminal, probability
        self.opts = opts
        self.budget = opts.get("max_nodes", 8)
        self.nconds = 0

    def node(self, **kw):
        self.counter = getattr(self, "counter", -1) + 1
        n = {"name": f"{self.g}n{self.counter}", "children": [], "conditional": False,
             "terminal": False, "probability": 1.0, "in_branch": kw.pop("in_branch", False)}
        n.update(kw)
        self.nodes.append(n)
        self.budget -= 1
        return n

    def _arm_nodes(self, entry):
        """all nodes of a single-entry block (reachable from its entry through the links made so far)"""
        byname = {n["name"]: n for n in self.nodes}
        out, stack, seen = [], [entry], set()
        while stack:
            n = stack.pop()
            if n["name"] in seen:
                continue
            seen.add(n["name"])
            out.append(n)
            for c in n["children"]:
                if c in byname:
                    stack.append(byname[c])
        return out

    def link(self, a, b):
        if b["name"] not in a["children"]:
            a["children"].append(b["name"])

    def block(self, depth, in_branch):
        """returns (entry, exit)"""
        r = self.r
        kinds = ["task"] * 4
        if self.budget >= 2:
            kinds += ["seq"] * 3
        if self.budget >= 4 and depth < 2:
            kinds += ["par"] * 2
        if self.budget >= 4 and depth < 2 and self.opts.get("conditionals") and \
                self.nconds < self.opts.get("max_conds", 2):
            kinds += ["cond"] * (4 if not in_branch else 2)
        k = r.choice(kinds)
        if k == "task":
            n = self.node(in_branch=in_branch)
            return n, n
        if k == "seq":
            a_in, a_out = self.block(depth + 1, in_branch)
            b_in, b_out = self.block(depth + 1, in_branch)
            self.link(a_out, b_in)
            return a_in, b_out
        if k == "par":
            f = self.node(in_branch=in_branch)
            j = None
            arms = []
            for _ in range(2 if self.budget < 4 or r.random() < 0.7 else 3):
                if self.budget < 2:
                    break
                arms.append(self.block(depth + 1, in_branch))
            j = self.node(in_branch=in_branch)
            if not arms:
                self.link(f, j)
            for a_in, a_out in arms:
                self.link(f, a_in)
                self.link(a_out, j)
            return f, j
        # cond
        self.nconds += 1
        c = self.node(conditional=True, in_branch=in_branch)
        nb = 3 if self.budget >= 5 and r.random() < 0.3 else 2
        probs = list(r.choice(PROB_VECS[nb]))
        arms = []
        for i in range(nb):
            arms.append(self.block(depth + 1, True))
        t = self.node(terminal=True, in_branch=in_branch)
        empty = None
        if r.random() < self.opts.get("p_empty_branch", 0.0) and len(arms) >= 2:
            # "if ... then <branch> (else nothing)": one arm is empty, the conditional points straight at
            # its join, which then carries that arm's probability
            empty = r.randrange(len(arms))
        for i, ((a_in, a_out), p) in enumerate(zip(arms, probs)):
            if i == empty:
                # the generated arm stays in the graph as an ordinary successor-less side chain? no: drop it
                for n_ in self._arm_nodes(a_in):
                    self.nodes.remove(n_)
                    self.budget += 1
                t["probability"] = p
                self.link(c, t)
                self.empty_branches = getattr(self, "empty_branches", 0) + 1
                continue
            a_in["probability"] = p
            self.link(c, a_in)
            self.link(a_out, t)
        if self.budget >= 1 and self.opts.get("p_side_output") and r.random() < self.opts["p_side_output"]:
            # a side output: one arm also feeds a task that is a sink of the graph (it exists on that arm only)
            live = [a for i_, a in enumerate(arms) if i_ != empty]
            if live:
                out = self.node(in_branch=True)
                self.link(r.choice(live)[1], out)
                self.side_outputs = getattr(self, "side_outputs", 0) + 1
        if self.budget >= 1 and not in_branch and r.random() < self.opts.get("p_side_input", 0):
            # an ordinary source task feeding the head of one branch: the head then waits for the
            # conditional *and* for the side input
            side = self.node(in_branch=True)
            self.link(side, r.choice(arms)[0])
            self.side_inputs = getattr(self, "side_inputs", 0) + 1
            self.side_links = getattr(self, "side_links", []) + [(side, t)]
        return c, t


def gen_graph(r, gname, cluster, opts):
    gb = _GB(r, gname, opts)
    shape = r.choice(opts.get("shapes") or ["single", "chain", "sp", "sp", "sp", "forest", "dag"])
    if shape == "single":
        gb.budget = 1
        gb.block(3, False)
    elif shape == "chain":
        n = r.randint(2, min(5, gb.budget))
        prev = None
        for _ in range(n):
            x = gb.node()
            if prev:
                gb.link(prev, x)
            prev = x
    elif shape == "sp":
        a_in, a_out = gb.block(0, False)
        if gb.budget > 0 and r.random() < 0.5:
            b_in, b_out = gb.block(0, False)
            gb.link(a_out, b_in)
    elif shape == "forest":
        gb.block(1, False)
        if gb.budget > 0:
            gb.block(1, False)
    else:  # random dag without conditionals + skip edges
        n = r.randint(2, min(6, gb.budget))
        ns = [gb.node() for _ in range(n)]
        for i in range(1, n):
            for j in range(i):
                if r.random() < 0.35:
                    gb.link(ns[j], ns[i])
    if opts.get("p_side_after_join"):
        # the side input of a branch head also feeds a task after the join: when the other branch is taken that
        # dependency is carried by the direct edge alone
        for side, t in getattr(gb, "side_links", []):
            if r.random() < opts["p_side_after_join"]:
                kids = [n for n in gb.nodes if n["name"] in t["children"] and not n["terminal"]
                        and not n["conditional"] and not n["in_branch"]]
                if kids:
                    gb.link(side, kids[0])
    # skip edges among top-level ordinary nodes (keeps conditional shape intact)
    top = [n for n in gb.nodes if not n["in_branch"] and not n["conditional"] and not n["terminal"]]
    if opts.get("skip_edges", True) and len(top) >= 3 and r.random() < 0.3:
        order = {n["name"]: i for i, n in enumerate(_topo(gb.nodes))}
        a, b = r.sample(top, 2)
        if order[a["name"]] > order[b["name"]]:
            a, b = b, a
        if not _reaches(gb.nodes, b["name"], a["name"]):
            gb.link(a, b)
    nodes = gb.nodes
    shared = r.random() < 0.2
    profiles = []
    for i, n in enumerate(nodes):
        if shared and i > 0 and r.random() < 0.5:
            n["profile"] = nodes[r.randrange(i)]["profile"]
        else:
            pn = f"{n['name']}_wp"
            profiles.append(gen_profile(r, pn, cluster, opts))
            n["profile"] = pn
        n.pop("in_branch", None)
    if opts.get("heavy_side_input"):
        # the side input of a branch head needs a whole worker's worth of the first resource type for a while:
        # it often waits behind the rest of its graph, i.e. it is still RELEASED when the join completes
        tot = max((worker_totals(w).get(cluster["types"][0], 0) for p_ in cluster["pools"] for w in p_["workers"]),
                  default=1)
        for side, _t in getattr(gb, "side_links", []):
            pn = f"{side['name']}_wp"
            profiles = [p_ for p_ in profiles if p_["name"] != pn]
            profiles.append({"name": pn, "strategies": [{"req": {f"{cluster['types'][0]}:any": max(tot, 1)},
                                                         "runtime": r.choice([2, 3, 5]), "batch": 1}], "loading": []})
            side["profile"] = pn
    return {"name": gname, "nodes": nodes, "profiles": profiles, "shape": shape}


def _topo(nodes):
    byname = {n["name"]: n for n in nodes}
    indeg = {n["name"]: 0 for n in nodes}
    for n in nodes:
        for c in n["children"]:
            indeg[c] += 1
    out, q = [], [n["name"] for n in nodes if indeg[n["name"]] == 0]
    while q:
        x = q.pop(0)
        out.append(byname[x])
        for c in byname[x]["children"]:
            indeg[c] -= 1
            if indeg[c] == 0:
                q.append(c)
    return out


def _reaches(nodes, a, b):
    byname = {n["name"]: n for n in nodes}
    seen, st = set(), [a]
    while st:
        x = st.pop()
        if x == b:
            return True
        if x in seen:
            continue
        seen.add(x)
        st.extend(byname[x]["children"])
    return False


def critical_path(graph, profiles, key="max"):
    """longest path (sum of slowest-strategy runtimes) computed by plain DP."""
    byname = {n["name"]: n for n in graph["nodes"]}
    rt = {}
    for n in graph["nodes"]:
        ss = profiles[n["profile"]]["strategies"]
        rt[n["name"]] = max(s["runtime"] for s in ss)
    memo = {}

    def lp(x):
        if x not in memo:
            memo[x] = rt[x] + max([lp(c) for c in byname[x]["children"]] or [0])
        return memo[x]

    return max(lp(n["name"]) for n in graph["nodes"])


# -------------------------------------------------------------------------- release
def gen_release(r, opts, horizon):
    kinds = opts.get("release_kinds") or ["fixed", "fixed", "fixed", "periodic", "poisson",
                                            "gamma", "closed_loop", "fixed_gamma"]
    k = r.choice(kinds)
    start = r.choice([0, 0, 0, 1, 2, 5])
    n = r.choice([1, 1, 2, 2, 3, 4]) if not opts.get("max_invocations") else \
        r.randint(1, opts["max_invocations"])
    if k == "fixed":
        return {"type": "fixed", "period": r.choice([0, 1, 2, 3, 5, 10]), "invocations": n,
                "start": start}
    if k == "periodic":
        # bounded by the loop timeout, keep the number of invocations small
        period = max(1, horizon // r.choice([1, 2, 3, 4]))
        return {"type": "periodic", "period": period, "start": start}
    if k == "poisson":
        return {"type": "poisson", "rate": r.choice([0.1, 0.2, 0.5, 1.0]), "invocations": n,
                "start": start}
    if k == "gamma":
        return {"type": "gamma", "rate": r.choice([0.1, 0.2, 0.5]),
                "coefficient": r.choice([0.5, 1.0, 2.0]), "invocations": n, "start": start}
    if k == "fixed_gamma":
        return {"type": "fixed_gamma", "rate": r.choice([0.1, 0.2]), "base_rate": r.choice([0.1, 0.2]),
                "coefficient": r.choice([0.5, 1.0]), "invocations": max(2, n), "start": start}
    conc = r.choice([1, 1, 2, 3])
    return {"type": "closed_loop", "concurrency": conc, "invocations": max(conc, n + r.choice([0, 1, 2])),
            "start": start}


# ---------------------------------------------------------------------------- flags
def default_flags():
    return {
        "scheduler_delay": 0, "runtime_variance": 0, "drop_skipped_tasks": False,
        "verify_schedule": False, "scheduler_run_at_worker_free": False,
        "workload_update_interval": -1, "log_graphs": False,
        "min_deadline_variance": 0, "max_deadline_variance": 20, "min_deadline": 0,
        "max_deadline": 2 ** 63 - 1, "use_branch_predicated_deadlines": False,
        "resolve_conditionals_at_submission": False, "decompose_deadlines": False,
        "release_taskgraphs": False, "scheduler_log_times": [], "scheduler_run_load": False,
    }


def gen_world(seed, profile="greedy", opts=None):
    if profile == "clockwork":
        return gen_clockwork_world(seed, opts)
    opts = dict(opts or {})
    r = _rng(seed, "world")
    # swarm switches
    opts.setdefault("conditionals", r.random() < opts.get("p_conditionals", 0.35))
    opts.setdefault("zero_runtime", r.random() < opts.get("p_zero_runtime", 0.25))
    opts.setdefault("max_nodes", r.choice([3, 5, 8]))
    cluster = gen_cluster(r, opts)
    ngraphs = opts.get("graphs") or (r.choice([1, 1, 2]) if opts.get("plan") else r.choice([1, 1, 2, 2, 3]))
    graphs, profiles = [], {}
    total_rt = 0
    flags = default_flags()
    for gi in range(ngraphs):
        g = gen_graph(r, f"G{gi}", cluster, opts)
        for p in g.pop("profiles"):
            profiles[p["name"]] = p
        graphs.append(g)
    for g in graphs:
        cp = critical_path(g, profiles)
        g["release"] = gen_release(r, opts, horizon=max(10, 4 * cp + 10))
        g["deadline_variance"] = r.choice(opts.get("deadline_variances") or
                                          [[0, 0], [0, 0], [0, 50], [10, 100], [50, 50], [0, 300], [100, 400]])
        if r.random() < 0.15:
            g["deadline_variance"] = None  # falls back to flag values
    # flags
    if r.random() < 0.3:
        flags["scheduler_delay"] = r.choice([1, 2, 5])
    if r.random() < opts.get("p_variance", 0.3):
        flags["runtime_variance"] = r.choice([10, 50, 100])
    if r.random() < 0.25:
        flags["scheduler_run_at_worker_free"] = True
    if r.random() < opts.get("p_drop", 0.2):
        flags["drop_skipped_tasks"] = True
    if opts["conditionals"] and r.random() < opts.get("p_resolve", 0.3):
        flags["resolve_conditionals_at_submission"] = True
    if r.random() < 0.15:
        flags["min_deadline_variance"], flags["max_deadline_variance"] = r.choice(
            [(0, 0), (0, 100), (25, 50)])
    if r.random() < 0.1:
        flags["min_deadline"], flags["max_deadline"] = r.choice([(0, 5), (3, 2 ** 63 - 1), (2, 8)])
    if r.random() < 0.15:
        flags["decompose_deadlines"] = True
    # total work, for the timeout
    ninv = 0
    for g in graphs:
        rel = g["release"]
        inv = rel.get("invocations", 4)
        ninv += inv
        total_rt += inv * sum(max(s["runtime"] for s in profiles[n["profile"]]["strategies"])
                              for n in g["nodes"])
    timeout = 50 * max(total_rt, 4) + 100
    sim = {"loop_timeout": timeout,
           "scheduler_frequency": r.choice(opts.get("frequencies") or [-1, -1, -1, 0, 1, 2, 3, 5, 10])}
    for g in graphs:
        if g["release"]["type"] == "periodic":
            # keep periodic bounded: horizon = a few periods
            sim["loop_timeout"] = min(sim["loop_timeout"],
                                      g["release"]["start"] + 4 * g["release"]["period"] + 40)
    policy = gen_policy(r, profile, opts, flags)
    world = {"seed": seed, "profile": profile, "cluster": cluster, "profiles": profiles,
             "graphs": graphs, "flags": flags, "sim": sim, "policy": policy,
             "faults": gen_faults(r, profile, opts), "loader": {"kind": "static"}}
    if r.random() < opts.get("p_batch_loader", 0.2) and profile in ("greedy", "chaos", "plan"):
        world["loader"] = {"kind": "batch", "interval": r.choice([1, 3, 7]),
                           "batches": r.choice([2, 3])}
        world["flags"]["workload_update_interval"] = world["loader"]["interval"]
        rw = random.Random(f"{seed}:loader")
        # the loader's own window (how far ahead of `now` it delivers) may be wider than the update interval;
        # with the interval flag unset the simulator asks again right after the last release it was given
        world["loader"]["window"] = world["loader"]["interval"] * rw.choice([1, 1, 2])
        if rw.random() < 0.2:
            world["flags"]["workload_update_interval"] = -1
    ro = random.Random(f"{seed}:node_order")
    for g in graphs:
        if ro.random() < opts.get("p_shuffle_nodes", 0.3):
            names = [n["name"] for n in g["nodes"]]
            ro.shuffle(names)
            g["node_order"] = names
    if opts.get("stagger_sources"):
        world["stagger_sources"] = True
    if opts.get("via_loader") and profile == "greedy":
        rv = random.Random(f"{seed}:via_loader")
        world["via_loader"] = {"format": rv.choice(["json", "yaml"]), "terse": rv.random() < 0.4}
    if opts.get("time_scale"):
        scale_world(world, opts["time_scale"])
        world["mixed_units"] = True
    if profile == "chaos" and policy.get("p_load"):
        # loading strategies so that ChaosPolicy can load / re-load / evict model profiles next to running tasks
        rl = random.Random(f"{seed}:loading")
        for pname in sorted(profiles):
            if rl.random() < 0.6:
                profiles[pname]["loading"] = [
                    {"req": {f"{rl.choice(cluster['types'])}:any": rl.choice([1, 1, 2])},
                     "runtime": rl.choice([0, 1, 3]), "batch": 1} for _ in range(rl.choice([1, 2]))]
    if profile == "plan" and opts.get("p_plan_batching") and policy["name"] in ("ILP", "TetriSchedCPLEX"):
        # the planners' own batching option: tasks of one work profile may share one BatchStrategy
        rb = random.Random(f"{seed}:planbatch")
        if rb.random() < opts["p_plan_batching"]:
            policy["batching"] = True
            for pname in sorted(profiles):
                for k_, st in enumerate(profiles[pname]["strategies"]):
                    # every profile keeps a strategy a single task can use (the planners' batching code
                    # takes min() over the strategies whose batch size fits the tasks at hand)
                    st["batch"] = 1 if k_ == 0 else rb.choice([1, 2, 2, 3])
    if profile == "chaos" and policy.get("p_batch"):
        rb = random.Random(f"{seed}:batchsize")
        for pname in sorted(profiles):
            for st in profiles[pname]["strategies"]:
                st["batch"] = rb.choice([1, 1, 2, 3])
    sanitize(world)
    return world


def scale_world(w, k):
    """multiply every duration / instant of a (greedy or chaos) world by k: with k = 1000 the run happens on
    a millisecond grid, so that deadlines can be written in ms (or s) and the mixed-unit code paths of
    EventTime are exercised by whole runs"""
    for p in w["profiles"].values():
        for s_ in p["strategies"] + p.get("loading", []):
            s_["runtime"] *= k
    for g in w["graphs"]:
        rel = g["release"]
        for f in ("period", "start"):
            if f in rel:
                rel[f] *= k
        for f in ("rate", "base_rate"):
            if f in rel:
                rel[f] = rel[f] / k
        for n in g["nodes"]:
            if "slo" in n:
                n["slo"] *= k
    w["sim"]["loop_timeout"] *= k
    if w["sim"]["scheduler_frequency"] > 0:
        w["sim"]["scheduler_frequency"] *= k
    else:
        # "-1: again in the next microsecond" / "0: continuously" would mean thousands of invocations per
        # (scaled) time unit while a task waits for resources: use one invocation per scaled unit instead
        w["sim"]["scheduler_frequency"] = k
    fl = w["flags"]
    fl["scheduler_delay"] *= k
    fl["min_deadline"] *= k
    if fl["max_deadline"] < 2 ** 62:
        fl["max_deadline"] *= k
    if w["faults"].get("cut"):
        w["faults"]["cut"] *= k
    pol = w["policy"]
    for f in ("runtime", "lookahead"):
        if pol.get(f):
            pol[f] *= k
    w["time_scale"] = k


def gen_policy(r, profile, opts, flags):
    if profile == "greedy":
        name = opts.get("policy") or r.choice(opts.get("greedy_policies") or GREEDY)
        pol = {"name": name, "runtime": 0}
        if name in ("EDF", "FIFO") and r.random() < opts.get("p_enforce", 0.3):
            pol["enforce_deadlines"] = True
        return pol
    if profile == "chaos" and opts.get("chaos_replan"):
        # a chaos policy that plans ahead, revises its plans and retracts them often
        return {"name": "Chaos", "runtime": r.choice([0, 0, 1]), "lookahead": r.choice([2, 5, 20]),
                "retract": True, "release_taskgraphs": r.random() < 0.4, "ids": r.random() < 0.5,
                "p_skip": r.choice([0.2, 0.4]), "p_cancel": r.choice([0.0, 0.05]),
                "p_future": r.choice([0.6, 0.9]), "p_omit": 0.0, "p_full": r.choice([0.0, 0.3]),
                "p_batch": 0.0, "p_load": 0.0, "future_deltas": [3, 5, 8, 13]}
    if profile == "chaos":
        return {"name": "Chaos", "runtime": r.choice([0, 0, 1, 2, 3]),
                "lookahead": r.choice([0, 0, 2, 5, 20]),
                "retract": r.random() < 0.4, "release_taskgraphs": r.random() < 0.4,
                "ids": r.random() < 0.5,
                "p_skip": r.choice([0.0, 0.1, 0.3]), "p_cancel": r.choice([0.0, 0.0, 0.05, 0.15]),
                "p_future": r.choice([0.0, 0.2, 0.5]), "p_omit": r.choice([0.0, 0.1]),
                "p_full": r.choice([0.0, 0.3]), "p_batch": r.choice([0.0, 0.0, 0.3, 0.7]),
                "p_load": r.choice([0.0, 0.0, 0.2, 0.5])}
    if profile == "wc":
        # harness-owned work-conserving policy with a non-zero decision latency (fault kind F2)
        return {"name": "WC", "runtime": r.choice([1, 1, 2, 3, 5]), "order": r.choice(["release", "deadline"])}
    if profile == "plan":
        name = opts.get("policy") or r.choice(opts.get("policies") or
                                              ["ILP", "ILP", "TetriSchedGurobi", "TetriSchedGurobi",
                                               "TetriSchedCPLEX"])
        pol = {"name": name, "runtime": 0, "lookahead": r.choice(opts.get("lookaheads") or [0, 0, 2, 5, 20]),
               "retract": r.random() < 0.4, "enforce_deadlines": r.random() < 0.6,
               "branch_policy": r.choice(["worst", "best", "all", "max"])}
        if name == "ILP":
            pol["runtime"] = r.choice([0, 0, 0, 1])
            pol["release_taskgraphs"] = r.random() < 0.4
            pol["goal"] = r.choice(["max_goodput", "max_slack"])
            if pol["goal"] == "max_goodput":
                pol["enforce_deadlines"] = True
        else:
            pol["plan_ahead"] = r.choice([6, 8, 10, 12])
            pol["discretization"] = r.choice([1, 1, 2, 3])
            if name == "TetriSchedGurobi":
                pol["release_taskgraphs"] = r.random() < 0.4
                pol["retract"] = r.random() < 0.6
        if opts.get("policy_opts"):
            pol.update(opts["policy_opts"])
        return pol
    raise ValueError(profile)


PLAN_OPTS = {"p_batch_loader": 0, "pools": 1, "max_nodes": 3, "graphs": None, "max_invocations": 2,
             "max_runtime": 4, "p_zero_runtime": 0.1, "p_variance": 0.2, "p_conditionals": 0.2,
             "release_kinds": ["fixed", "fixed", "poisson", "closed_loop"], "max_conds": 1,
             "plan": True}


def gen_faults(r, profile, opts):
    f = {"cut": None}
    if r.random() < opts.get("p_cut", 0.15):
        f["cut"] = r.choice([1, 2, 3, 5, 8, 13, 21])
    if profile == "greedy" and opts.get("p_z3_probe"):
        f["z3_probe"] = r.random() < opts["p_z3_probe"]
    if profile == "greedy" and opts.get("p_preempt_probe"):
        f["preempt_probe"] = r.random() < opts["p_preempt_probe"]
    if profile == "plan":
        f["solver_chaos"] = {"on": r.random() < opts.get("p_solver_chaos", 0.5), "p": 0.7}
    return f


def sanitize(world):
    """Remove combinations the code explicitly refuses (preconditions, not bugs)."""
    pol = world["policy"]
    fl = world["flags"]
    if pol["name"] in ("EDF", "FIFO"):
        fl["release_taskgraphs"] = False
    if pol["name"] in GREEDY + ["Clockwork", "TetriSchedGurobi", "TetriSchedCPLEX"]:
        pol["runtime"] = 0
    if pol["name"] == "ILP":
        pol["runtime"] = min(pol.get("runtime", 0), 1)
        if pol.get("retract"):
            # a retracted task may have started by the time a 1us-late decision is applied; the
            # simulator then takes the (explicitly unimplemented) preempt/migrate path
            pol["runtime"] = 0
        if pol.get("goal") == "max_goodput":
            pol["enforce_deadlines"] = True
    if pol["name"] == "TetriSchedCPLEX":
        fl["release_taskgraphs"] = False
    if world["faults"].get("cut"):
        world["sim"]["loop_timeout"] = world["faults"]["cut"]
    # Zeno guard (DESIGN 2.3): frequency 0 with a zero-latency scheduler may be
    # re-invoked at the same instant forever when the policy declines work.
    if pol["name"] == "Chaos" and world["sim"]["scheduler_frequency"] == 0 and pol["runtime"] == 0:
        world["sim"]["scheduler_frequency"] = 1
    return world


def world_size(world):
    n = 0
    for g in world["graphs"]:
        n += len(g["nodes"]) * g["release"].get("invocations", 4)
    return n


# ---------------------------------------------------------------------------- clockwork
def gen_clockwork_world(seed, opts=None):
    """Clockwork worlds: 1-3 models with 2-3 batch-size strategies and a loading strategy, requests
    are single-task graphs arriving by fixed / poisson / gamma / closed-loop release with deadlines
    around the boundary; half of the worlds pre-load the models, half let the policy load them."""
    opts = dict(opts or {})
    r = _rng(seed, "world")
    nworkers = r.choice([1, 1, 2])
    npools = 1 if nworkers == 1 or r.random() < 0.6 else 2
    nmodels = r.choice([1, 2, 2, 3])
    ram_per_model = r.choice([1, 2])
    pools = []
    wi = 0
    for p in range(npools):
        ws = []
        for _ in range(nworkers if npools == 1 else 1):
            ram = r.choice([ram_per_model * nmodels, ram_per_model * nmodels, ram_per_model,
                            ram_per_model * 2])
            ws.append({"name": f"P{p}W{wi}", "resources": [{"name": "GPU", "id": None, "q": 1},
                                                           {"name": "RAM", "id": None, "q": ram}]})
            wi += 1
        pools.append({"name": f"P{p}", "workers": ws})
    cluster = {"types": ["GPU", "RAM"], "pools": pools}
    profiles = {}
    graphs = []
    for m in range(nmodels):
        sizes = r.choice([[1, 2], [1, 2, 4], [1, 4], [2, 4], [1, 2, 3]])
        base = r.choice([1, 2, 3])
        strategies = []
        rt = base
        for b in sizes:
            strategies.append({"req": {"GPU:any": 1}, "runtime": rt, "batch": b})
            rt += r.choice([1, 1, 2])
        r.shuffle(strategies)
        profiles[f"M{m}"] = {"name": f"M{m}", "strategies": strategies,
                             "loading": [{"req": {"RAM:any": ram_per_model}, "runtime": r.choice([1, 2, 4]),
                                          "batch": 1}]}
    ngraphs = nmodels if r.random() < 0.7 else nmodels + 1
    for gi in range(ngraphs):
        model = f"M{gi % nmodels}"
        rel_kind = r.choice(["fixed", "fixed", "poisson", "gamma", "closed_loop"])
        n = r.choice([3, 4, 6, 8])
        if rel_kind == "fixed":
            rel = {"type": "fixed", "period": r.choice([0, 0, 1, 2, 3]), "invocations": n, "start": r.choice([0, 1, 3])}
        elif rel_kind == "poisson":
            rel = {"type": "poisson", "rate": r.choice([0.3, 0.5, 1.0]), "invocations": n, "start": r.choice([0, 2])}
        elif rel_kind == "gamma":
            rel = {"type": "gamma", "rate": r.choice([0.3, 0.5]), "coefficient": r.choice([0.5, 1.0, 2.0]),
                   "invocations": n, "start": r.choice([0, 2])}
        else:
            rel = {"type": "closed_loop", "concurrency": r.choice([1, 2, 4]), "invocations": n, "start": 0}
            rel["concurrency"] = min(rel["concurrency"], n)
        node_ = {"name": f"G{gi}n0", "children": [], "conditional": False, "terminal": False,
                 "probability": 1.0, "profile": model}
        if opts.get("p_short_slo"):
            rs_ = random.Random(f"{seed}:slo:{gi}")
            rts_ = sorted(st["runtime"] for st in profiles[model]["strategies"])
            if rs_.random() < opts["p_short_slo"] and rts_[0] < rts_[-1]:
                # an SLO the fastest strategy can meet and the slowest cannot, even at the release instant
                node_["slo"] = rs_.randint(rts_[0], rts_[-1] - 1)
        graphs.append({"name": f"G{gi}", "shape": "single",
                       "nodes": [node_],
                       "release": rel,
                       "deadline_variance": r.choice([[0, 0], [0, 50], [0, 100], [50, 200], [100, 400], [0, 300]])})
    flags = default_flags()
    preload = r.random() < 0.5
    flags["scheduler_run_load"] = (not preload) or r.random() < 0.3
    if r.random() < 0.4:
        flags["drop_skipped_tasks"] = True
    if r.random() < 0.2:
        flags["scheduler_delay"] = r.choice([1, 2])
    if r.random() < 0.15:
        flags["runtime_variance"] = r.choice([10, 50])
    pre = []
    if preload:
        for p in pools:
            for w in p["workers"]:
                tot = [x["q"] for x in w["resources"] if x["name"] == "RAM"][0]
                k = 0
                for m in range(nmodels):
                    if (k + 1) * ram_per_model <= tot and r.random() < 0.85:
                        pre.append([w["name"], f"M{m}"])
                        k += 1
    total_rt = sum(g["release"]["invocations"] * 6 for g in graphs)
    sim = {"loop_timeout": 30 * max(total_rt, 4) + 100, "scheduler_frequency": r.choice([-1, -1, -1, 1, 2, 5])}
    world = {"seed": seed, "profile": "clockwork", "cluster": cluster, "profiles": profiles, "graphs": graphs,
             "flags": flags, "sim": sim,
             "policy": {"name": "Clockwork", "runtime": 0, "goal": r.choice(["clockwork", "least_slack"]),
                        "enforce_deadlines": True},
             "faults": gen_faults(r, "clockwork", opts), "loader": {"kind": "static"}, "preload": pre}
    if opts.get("batch_planner"):
        # the same request streams (single-task graphs of a few models with batch-size strategies, deadlines
        # around the boundary) under a planner with its batching option instead of Clockwork
        rp = random.Random(f"{seed}:batch_planner")
        world["profile"] = "plan"
        world["policy"] = {"name": opts["batch_planner"], "runtime": 0, "batching": True, "enforce_deadlines": True,
                           "retract": rp.random() < 0.3, "lookahead": rp.choice([0, 0, 2]),
                           "plan_ahead": rp.choice([8, 12, 16]), "discretization": 1, "branch_policy": "worst"}
        world["preload"] = []
        if rp.random() < 0.7:
            # one worker: a batch planned for later (the worker is busy) meets later arrivals
            cluster["pools"] = [dict(pools[0], workers=pools[0]["workers"][:1])]
        for g in graphs:
            if g["release"]["type"] == "fixed" and g["release"]["period"] == 0 and rp.random() < 0.7:
                g["release"]["period"] = rp.choice([1, 2, 3])
        flags["scheduler_run_load"] = False
        flags["scheduler_delay"] = 0
        for p in profiles.values():
            p.pop("loading", None)
            if not any(st["batch"] == 1 for st in p["strategies"]):
                min(p["strategies"], key=lambda st: st["batch"])["batch"] = 1
        for g in graphs:
            g["release"]["invocations"] = min(g["release"]["invocations"], 4)
            if "concurrency" in g["release"]:
                g["release"]["concurrency"] = min(g["release"]["concurrency"], g["release"]["invocations"])
        world["faults"]["solver_chaos"] = {"on": False, "p": 0.0}
    sanitize(world)
    return world
